#!/bin/sh
# Offline setup: parse every specification module with SANY and smoke-run TLC once.
set -e
cd "$(dirname "$0")"
chmod +x check
fail=0
for f in spec/*.tla; do
  out=$(cd spec && java -cp /opt/veriftools/tla/tla2tools.jar:/opt/veriftools/tla/CommunityModules-deps.jar tla2sany.SANY "$(basename "$f")" 2>&1) || true
  if echo "$out" | grep -q -e "Semantic errors" -e "Parse Error" -e "\*\*\* Errors" -e "Fatal errors" -e "Could not"; then
    echo "SANY FAILED: $f"; echo "$out" | tail -20; fail=1
  fi
done
/venv/bin/python -c "import octave_mcp, sys; print('octave_mcp from', octave_mcp.__file__)"
[ $fail -eq 0 ] && echo "setup ok"
exit $fail
