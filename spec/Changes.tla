---------------------------- MODULE Changes ----------------------------
(* C18 - absent, null and value stay distinct; changes touch only named keys.               *)
(* Generator: documents of Author.tla, each followed by a sequence of up to MaxReqs changes   *)
(* requests; a request names top-level keys (own and fresh) and META fields with one of the   *)
(* operations DELETE | null | value.  ApplyChanges is the tri-state semantics of the          *)
(* documentation on the abstract document; everything not named is untouched (frame).         *)
EXTENDS Author

CONSTANTS MaxReqs, ReqKeys, ReqVals, MetaKeys
VARIABLE reqs         \* Seq(request); request = [key, op, v]; key "META.X" addresses META field X

Ops == {"DELETE", "null", "value"}
Requests == {[key |-> k, op |-> o, v |-> (IF o = "value" THEN v ELSE "-")] : k \in ReqKeys \cup {"META." \o m : m \in MetaKeys}, o \in Ops, v \in ReqVals}

IsMetaKey(k) == k \in {"META." \o m : m \in MetaKeys}
MetaName(k) == CHOOSE m \in MetaKeys : k = "META." \o m

(* ---- the semantics, on the model document (value ids; "null" is the id of the null value) *)
FirstIdx(body, k) == LET s == {i \in DOMAIN body : body[i].d = 0 /\ body[i].k = "assign" /\ body[i].key = k} IN
                     IF s = {} THEN 0 ELSE CHOOSE i \in s : \A j \in s : i <= j
RECURSIVE DropKey(_, _, _)
DropKey(body, k, i) == IF i > Len(body) THEN <<>>
                       ELSE IF body[i].d = 0 /\ body[i].k = "assign" /\ body[i].key = k THEN DropKey(body, k, i + 1)
                       ELSE <<body[i]>> \o DropKey(body, k, i + 1)
NewAssign(k, v) == Item(0, "assign", k, v, None, None, None, None, DefSp)
MetaIdx(meta, m) == LET s == {i \in DOMAIN meta : meta[i].key = m} IN IF s = {} THEN 0 ELSE CHOOSE i \in s : TRUE
RECURSIVE DropMeta(_, _, _)
DropMeta(meta, m, i) == IF i > Len(meta) THEN <<>> ELSE (IF meta[i].key = m THEN <<>> ELSE <<meta[i]>>) \o DropMeta(meta, m, i + 1)

Apply1(d, r) ==
  LET val == IF r.op = "null" THEN "null" ELSE r.v IN
  IF IsMetaKey(r.key)
  THEN LET m == MetaName(r.key) j == MetaIdx(d.meta, m) IN
       IF r.op = "DELETE" THEN [d EXCEPT !.meta = DropMeta(d.meta, m, 1)]
       ELSE IF j = 0 THEN [d EXCEPT !.meta = Append(d.meta, [key |-> m, v |-> val, nested |-> <<>>, sp |-> DefSp])]
       ELSE [d EXCEPT !.meta[j] = [key |-> m, v |-> val, nested |-> <<>>, sp |-> DefSp]]
  ELSE IF r.op = "DELETE" THEN [d EXCEPT !.body = DropKey(d.body, r.key, 1)]
  ELSE LET i == FirstIdx(d.body, r.key) IN
       IF i = 0 THEN [d EXCEPT !.body = Append(d.body, NewAssign(r.key, val))]
       ELSE [d EXCEPT !.body[i].v = val, !.body[i].sp = DefSp]
RECURSIVE ApplyAll(_, _, _)
ApplyAll(d, rs, i) == IF i > Len(rs) THEN d ELSE ApplyAll(Apply1(d, rs[i]), rs, i + 1)

(* top-level keys that name a block / section are not requested (the documentation does not define the outcome) *)
Requestable(d, r) == IsMetaKey(r.key) \/ ~\E i \in DOMAIN d.body : d.body[i].d = 0 /\ d.body[i].k # "assign" /\ d.body[i].key = r.key

CInit == Init /\ reqs = <<>>
Grow == reqs = <<>> /\ AddItem /\ reqs' = reqs
Ask == /\ Len(reqs) < MaxReqs /\ (doc.body # <<>> \/ doc.meta # <<>>)
       /\ \E r \in Requests : Requestable(doc, r) /\ reqs' = Append(reqs, r)
       /\ UNCHANGED doc
CNext == Grow \/ Ask

EmitChange == IF reqs # <<>> THEN PrintT(ToJson([doc |-> doc, lines |-> Render(doc), reqs |-> reqs,
                                                  want |-> AbsDoc(ApplyAll(doc, reqs, 1)),
                                                  named |-> {reqs[n].key : n \in DOMAIN reqs}])) ELSE TRUE
(* in-model: the tri-state is visible in the abstract document: DELETE, null and "" / [] give four different results *)
TriStateDistinct ==
  \A k \in ReqKeys : doc.body # <<>> =>
    Cardinality({AbsDoc(Apply1(doc, [key |-> k, op |-> "DELETE", v |-> "-"])).body,
                 AbsDoc(Apply1(doc, [key |-> k, op |-> "null", v |-> "-"])).body,
                 AbsDoc(Apply1(doc, [key |-> k, op |-> "value", v |-> "empty"])).body,
                 AbsDoc(Apply1(doc, [key |-> k, op |-> "value", v |-> "l0"])).body}) = 4
=============================================================================
