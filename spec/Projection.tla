---------------------------- MODULE Projection ----------------------------
(* C14 - projections only remove, and say so.                                               *)
(* Generator: trees (pre-order items with depth, as in Content.tla) whose keys include the    *)
(* filter keys of both lossy modes at top level and nested, with blocks, section markers,     *)
(* duplicate keys and values of every kind (lists, inline maps, literal zones, holographic).  *)
(* Leaves(t) = the set of (path of keys, abstract value) pairs of the tree: what a complete    *)
(* view must contain and a partial view must be a subset of.                                  *)
EXTENDS Values, TLC, Json, FiniteSets

CONSTANTS MaxItems, MaxDepth, KeyPool, ValPool
VARIABLE t      \* Seq([d, k, key, v])   k = assign | block | section

IsContainer(it) == it.k \in {"block", "section"}
DepthLimit(body) == IF body = <<>> THEN 0
                    ELSE LET last == body[Len(body)] IN
                         LET m == IF IsContainer(last) THEN last.d + 1 ELSE last.d IN IF m < MaxDepth THEN m ELSE MaxDepth
Init == t = <<>>
Add == /\ Len(t) < MaxItems
       /\ \E d \in 0..DepthLimit(t) : \E key \in KeyPool :
            \/ \E v \in ValPool : /\ (v \in ZoneIds => TRUE)
                                  /\ t' = Append(t, [d |-> d, k |-> "assign", key |-> key, v |-> v])
            \/ t' = Append(t, [d |-> d, k |-> "block", key |-> key, v |-> "-"])
            \/ /\ key \notin {"STATUS", "TESTS"}        \* section names: not the filter keys (sections are kept whole by every mode)
               /\ t' = Append(t, [d |-> d, k |-> "section", key |-> key, v |-> "-"])
Next == Add

(* canonical rendering: two spaces per level; the value in its plainest spelling *)
Pad(n) == [i \in 1..n |-> " "]
ItemLines(it) ==
  LET pad == Pad(2 * it.d) IN
  IF it.k = "block" THEN << pad \o <<it.key, ":">> >>
  ELSE IF it.k = "section" THEN << pad \o <<"U00A7", "1", "::", it.key>> >>
  ELSE LET sp == Spell(it.v)[1] IN
       << pad \o <<it.key, "::">> \o sp[1].c >>
       \o [j \in 1..(Len(sp) - 1) |-> IF sp[j + 1].k = "raw" THEN sp[j + 1].c ELSE pad \o sp[j + 1].c]
RECURSIVE Lines(_, _)
Lines(body, i) == IF i > Len(body) THEN <<>> ELSE ItemLines(body[i]) \o Lines(body, i + 1)
Render(body) == << <<"===", "DOC", "===">> >> \o Lines(body, 1) \o << <<"===END===">> >>

(* path of item i: keys of its ancestors (the last item at each smaller depth before it) followed by its own key *)
RECURSIVE AncestorKey(_, _, _)
AncestorKey(body, i, d) == IF body[i].d = d /\ IsContainer(body[i]) THEN body[i].key ELSE AncestorKey(body, i - 1, d)
PathOf(body, i) == [d \in 1..body[i].d |-> AncestorKey(body, i - 1, d - 1)] \o <<body[i].key>>
Leaves(body) == {[path |-> PathOf(body, i), v |-> Abs(body[i].v)] : i \in {j \in DOMAIN body : body[j].k = "assign"}}
Paths(S) == {x.path : x \in S}

HasSection(body) == \E i \in DOMAIN body : body[i].k = "section"
UnderSection(body, i) == \E j \in 1..(i - 1) : body[j].k = "section" /\ body[j].d < body[i].d
                                              /\ \A m \in (j + 1)..i : body[m].d > body[j].d
EmitCase == IF t # <<>> THEN PrintT(ToJson([body |-> t, lines |-> Render(t)])) ELSE TRUE
WellFormed == \A i \in DOMAIN t : (i = 1 => t[i].d = 0) /\ (i > 1 => t[i].d <= (IF IsContainer(t[i - 1]) THEN t[i - 1].d + 1 ELSE t[i - 1].d))
=============================================================================
