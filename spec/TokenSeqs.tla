---------------------------- MODULE TokenSeqs ----------------------------
(* C20 (and C01 b): every sequence of up to MaxTok tokens over a 34-token OCTAVE alphabet, as a *)
(* whole input (C20) or as the value of an assignment K:: (C01 b).  Totality: the outcome of a   *)
(* reader is a document or its own positioned error; the outcome of a tool is an envelope.       *)
EXTENDS Naturals, Sequences, TLC, Json

CONSTANTS MaxTok, Mode            \* Mode = "input" | "value"
VARIABLE ts

Tokens == {"::", ":", "[", "]", ",", "U2192", "->", "+", "~", "vs", "<->", "&", "|", "@", "U00A7", "#", "// c", "===A===",
           "===END===", "---", "\"s\"", "42", "true", "null", "A", "U000A", "  ", "1.2.3", "$V", "```", "1e999",      \* 1e999: a number literal that overflows a double
           "U00DC", "===U00DC===", "===A B==="}                \* letters outside ASCII: as a word, as an envelope name; an envelope name with a blank
Init == ts = <<>>
Extend == Len(ts) < MaxTok /\ \E t \in Tokens : ts' = Append(ts, t)
Next == Extend
EmitCase == IF ts # <<>> THEN PrintT(ToJson([toks |-> ts])) ELSE TRUE

(* ---- outcome algebra *)
ReaderOutcomes == {"document", "LexerError", "ParserError"}
ReaderFails(o) == (IF o.outcome \in ReaderOutcomes THEN {} ELSE {"ReaderTotal:" \o o.entry})
             \cup (IF o.outcome \in {"LexerError", "ParserError"} /\ ~o.positioned THEN {"ErrorPositioned:" \o o.entry} ELSE {})
ToolFails(o) == (IF o.raised = "-" THEN {} ELSE {"ToolNeverRaises:" \o o.entry})
           \cup (IF o.raised = "-" /\ ~o.serialisable THEN {"EnvelopeSerialisable:" \o o.entry} ELSE {})
           \cup (IF o.raised = "-" /\ ~o.has_status THEN {"EnvelopeHasStatus:" \o o.entry} ELSE {})
(* growth over a size-scaled family: work = deterministic count of executed source lines.  Over the last doubling of  *)
(* the family parameter the work may grow at most 27.5% faster than the input text does (for a text that doubles:   *)
(* factor 2.55 = exponent 1.35).  rw, rlen = work ratio and text-length ratio of that doubling, in thousandths.     *)
(* Wall time only guards against work hidden inside C calls.                                                        *)
LinearFails(f) == (IF f.rw * 1000 <= 1275 * f.rlen THEN {} ELSE {"RoughlyLinear:" \o f.family})
             \cup (IF f.timed_out THEN {"Terminates:" \o f.family} ELSE {})
=============================================================================
