---------------------------- MODULE Scalars ----------------------------
(* C04 - every scalar survives write-then-read with value and type intact.                *)
(*                                                                                       *)
(* Generator: the reachable states of this machine are exactly the strings (sequences of *)
(* alphabet symbols) of length <= MaxLen over Sigma, plus the non-string scalar pool.    *)
(* Store model: Put a value at a position of an otherwise fixed document, Emit, ReadBack; *)
(* RoundTrip says ReadBack returns the value put, with the same kind (strings after NFC). *)
EXTENDS Alphabet, TLC, Json, FiniteSets

CONSTANTS MaxLen,        \* bound on the number of symbols
          SigmaName      \* "full" | "core" : which alphabet the long strings are drawn from
VARIABLE cur             \* the case built so far: [t, s, lit]; t = "str": s is the symbol sequence

Core == {"a", "n", "1", "_", ".", "-", " ", "U000A", "\"", "\\", ":", "[", "]", ",", "<", ">",
         "$", "#", "U2192", "U2227", "+", "@", "%", "U0301", "U2028", "true", "null", "vs", "//", "::", "->"}
Sigma == IF SigmaName = "full" THEN Symbols ELSE Core

(* the value positions and the keys of the property statement *)
Positions == {"assign", "meta", "list1", "list3", "imap", "nest", "mapnest"}    \* nest: [[v, x], y]   mapnest: [K::[v]]
KeyClasses == {"K", "PATTERN", "REGEX"}
Routes == {"api", "tool"}

(* pool of non-string scalars: literal text is in Python repr form, so that the text read  *)
(* back, printed with repr(), must be this very text                                       *)
IntPool   == {"0", "1", "-1", "42", "2147483648", "9223372036854775808", "-9223372036854775809",
              "1000000000000000000000000000000"}
FloatPool == {"0.0", "-0.0", "0.1", "1.5", "-2.5", "1e+16", "1e+22", "1e-07", "5e-324",
              "1.7976931348623157e+308", "123456.789", "100.0", "1.5e-07", "2.5e+20", "-3.25e-05"}
OtherPool == {<<"bool", "True">>, <<"bool", "False">>, <<"null", "None">>}

NumCases == {[t |-> "int", s |-> <<>>, lit |-> x] : x \in IntPool}
              \cup {[t |-> "float", s |-> <<>>, lit |-> x] : x \in FloatPool}
              \cup {[t |-> x[1], s |-> <<>>, lit |-> x[2]] : x \in OtherPool}

Init == cur = [t |-> "str", s |-> <<>>, lit |-> ""] \/ cur \in NumCases
Extend == /\ cur.t = "str"
          /\ Len(cur.s) < MaxLen
          /\ \E a \in Sigma : cur' = [cur EXCEPT !.s = Append(cur.s, a)]
Next == Extend

EmitCase == PrintT(ToJson(cur))

(* in-model sanity: the NFC model is idempotent and never lengthens text *)
NFCIdempotent == LET f == Flatten(cur.s) IN NFC(NFC(f)) = NFC(f) /\ Len(NFC(f)) <= Len(f)

(* ---------------------------------------------------------------------------------- *)
(* The store, as far as the property is concerned                                      *)
Expected(case) ==
  IF case.t = "str" THEN [kind |-> "str", val |-> NFC(Flatten(case.s)), lit |-> ""]
                    ELSE [kind |-> case.t, val |-> <<>>, lit |-> case.lit]

(* obs = [at, ok, kind, val, lit] : what came back at the positions `at` (<<pos,key,route>>); *)
(* val = characters read back (strings), lit = repr() of the value read back (others)      *)
ReadAccepted(o) == o.ok
KindEqual(case, o) == o.ok => o.kind = Expected(case).kind
ValueEqual(case, o) == (o.ok /\ o.kind = Expected(case).kind) =>
                          (o.val = Expected(case).val /\ o.lit = Expected(case).lit)

=============================================================================
