---------------------------- MODULE Trace_Determinism ----------------------------
(* Trace validation for C06.  One record = one call served by one real process:                   *)
(*   [i, call, seed, cwd, loc, mode, hist (calls served before it in that process), parts]         *)
(* parts = <<[k, d]>> : digest d of every top-level part k of the normalised result (timestamps    *)
(* and the scratch root masked).  Records of one call are consecutive; the first one is the         *)
(* baseline (fresh process, seed 0, first directory, first locale, sequential).  Every other         *)
(* observation of the call must have the same parts; the failed clause names the only axis that      *)
(* differs from the baseline (or Combination) and the part that differs.                            *)
EXTENDS Naturals, Sequences, FiniteSets, TLC, Json, IOUtils
Trace == ndJsonDeserialize(IOEnv.TRACE_FILE)
VARIABLES l, base

Axes(r, b) == (IF r.seed # b.seed THEN {"HashSeed"} ELSE {})
         \cup (IF r.cwd # b.cwd THEN {"WorkingDirectory"} ELSE {})
         \cup (IF r.loc # b.loc THEN {"Locale"} ELSE {})
         \cup (IF r.mode # b.mode THEN {"Schedule"} ELSE {})
         \cup (IF r.hist # b.hist THEN {"History"} ELSE {})
Has(ps, p) == \E j \in DOMAIN ps : ps[j] = p
DiffParts(r, b) == {r.parts[j].k : j \in {x \in DOMAIN r.parts : ~Has(b.parts, r.parts[x])}}
              \cup {b.parts[j].k : j \in {x \in DOMAIN b.parts : ~Has(r.parts, b.parts[x])}}
AxisName(r, b) == LET a == Axes(r, b) IN
                  IF a = {} THEN "Repetition" ELSE IF Cardinality(a) = 1 THEN CHOOSE x \in a : TRUE ELSE "Combination"
FailsOf(r) == IF base.call # r.call THEN {}                                   \* r is the baseline of its call
              ELSE {"SameAcross" \o AxisName(r, base) \o ":" \o k : k \in DiffParts(r, base)}
Judge(r) == LET f == FailsOf(r) IN IF f = {} THEN TRUE ELSE PrintT(ToJson([i |-> r.i, fails |-> f]))
NoBase == [call |-> "", seed |-> "", cwd |-> "", loc |-> "", mode |-> "", hist |-> <<>>, parts |-> <<>>]
TInit == l = 1 /\ base = NoBase
TNext == /\ l <= Len(Trace)
         /\ Judge(Trace[l])
         /\ base' = IF base.call # Trace[l].call
                    THEN [call |-> Trace[l].call, seed |-> Trace[l].seed, cwd |-> Trace[l].cwd, loc |-> Trace[l].loc,
                          mode |-> Trace[l].mode, hist |-> Trace[l].hist, parts |-> Trace[l].parts]
                    ELSE base
         /\ l' = l + 1
TAccepted == TLCGet("stats").diameter - 1 = Len(Trace)
=============================================================================
