---------------------------- MODULE Trace_Totality ----------------------------
EXTENDS TokenSeqs, IOUtils
Trace == ndJsonDeserialize(IOEnv.TRACE_FILE)
VARIABLE l
FailsOf(r) == IF r.kind = "family" THEN LinearFails(r)
              ELSE UNION {ReaderFails(r.readers[j]) : j \in DOMAIN r.readers} \cup UNION {ToolFails(r.tools[j]) : j \in DOMAIN r.tools}
Judge(r) == LET f == FailsOf(r) IN IF f = {} THEN TRUE ELSE PrintT(ToJson([i |-> r.i, fails |-> f]))
TInit == l = 1 /\ ts = <<>>
TNext == l <= Len(Trace) /\ Judge(Trace[l]) /\ l' = l + 1 /\ UNCHANGED ts
TAccepted == TLCGet("stats").diameter - 1 = Len(Trace)
=============================================================================
