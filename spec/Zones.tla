---------------------------- MODULE Zones ----------------------------
(* C05 - literal zones pass through every pipeline byte-for-byte.                          *)
(* Generator: zone = fence length x info tag x up to MaxLines content lines over a line     *)
(* alphabet that collides with OCTAVE's own syntax, placed in a document shape (depth,      *)
(* bare block child, neighbours of every kind, two zones).  Every reachable state is a case.*)
(* Oracle: ExpectedZones / ExpectedOthers say what any pipeline must hand back.             *)
EXTENDS Naturals, Sequences, TLC, Json

CONSTANTS MaxLines, Fences, Shapes
VARIABLE z      \* [shape, fence, tag, ls] ; ls = sequence of line ids

LineIds == {"tab", "nfd", "bsn", "quote", "uop", "alias", "assign", "end", "sep", "ticks", "ticks3", "ticks3nfd",
            "lead", "trail", "word", "empty", "curly", "curly2", "curly3", "cmt", "tq", "ticks3ind", "linelike"}
NeedsLongFence == {"ticks3", "ticks3nfd", "ticks3ind"}          \* a backtick run of 3: only content under a longer fence

(* chunks of a content line (atoms Uxxxx are single characters) and the same text in {Uxxxx} encoding *)
LineChunks(id) ==
  CASE id = "tab" -> <<"U0009", "x">>            [] id = "nfd" -> <<"cafe", "U0301">>
    [] id = "bsn" -> <<"a\\nb \\t \\\\">>         [] id = "quote" -> <<"say \"hi\"">>
    [] id = "uop" -> <<"A", "U2192", "B">>        [] id = "alias" -> <<"a -> b | c & d vs e">>
    [] id = "assign" -> <<"k::v">>                [] id = "end" -> <<"===END===">>
    [] id = "sep" -> <<"---">>                    [] id = "ticks" -> <<"``">>
    [] id = "ticks3" -> <<"```">>                 [] id = "ticks3nfd" -> <<"```cafe", "U0301", "-lang">>
    [] id = "lead" -> <<"    lead">>              [] id = "trail" -> <<"trail  ">>
    [] id = "word" -> <<"word">>                  [] id = "empty" -> <<>>
    [] id = "curly" -> <<"u = \"https://x\"; render(Widget{props});">>
    [] id = "curly2" -> <<"render(Widget{props});">>
    [] id = "curly3" -> <<"see \"T1\" then Widget{props}">>
    [] id = "ticks3ind" -> <<"    ```sh">>
    [] id = "linelike" -> <<"page", "U000C", "break ", "U2028", " nel", "U0085", "vt", "U000B", "x">>     \* line boundaries to str.splitlines(), ordinary bytes to a zone
    [] id = "cmt" -> <<"// not a comment">>       [] OTHER (* tq *) -> <<"\"\"\"x\"\"\"">>
LineEnc(id) ==
  CASE id = "tab" -> "{U0009}x"                   [] id = "nfd" -> "cafe{U0301}"
    [] id = "bsn" -> "a\\nb \\t \\\\"             [] id = "quote" -> "say \"hi\""
    [] id = "uop" -> "A{U2192}B"                  [] id = "alias" -> "a -> b | c & d vs e"
    [] id = "assign" -> "k::v"                    [] id = "end" -> "===END==="
    [] id = "sep" -> "---"                        [] id = "ticks" -> "``"
    [] id = "ticks3" -> "```"                     [] id = "ticks3nfd" -> "```cafe{U0301}-lang"
    [] id = "lead" -> "    lead"                  [] id = "trail" -> "trail  "
    [] id = "word" -> "word"                      [] id = "empty" -> ""
    [] id = "curly" -> "u = \"https://x\"; render(Widget{U007B}props});"
    [] id = "curly2" -> "render(Widget{U007B}props});"
    [] id = "curly3" -> "see \"T1\" then Widget{U007B}props}"
    [] id = "ticks3ind" -> "    ```sh"
    [] id = "linelike" -> "page{U000C}break {U2028} nel{U0085}vt{U000B}x"
    [] id = "cmt" -> "// not a comment"           [] OTHER -> "\"\"\"x\"\"\""

Ticks(n) == [i \in 1..n |-> "`"]
Pad(n) == [i \in 1..n |-> " "]
TagChunks(t) == IF t = "" THEN <<>> ELSE <<t>>

(* zone as an assignment value at depth d: KEY:: / fence / content / fence *)
ZoneAssign(d, key, zz) ==
  << Pad(2 * d) \o <<key, "::">>, Pad(2 * d) \o Ticks(zz.fence) \o TagChunks(zz.tag) >>
  \o [j \in 1..Len(zz.ls) |-> LineChunks(zz.ls[j])]
  \o << Pad(2 * d) \o Ticks(zz.fence) >>
ZoneBare(d, zz) ==
  << Pad(2 * d) \o Ticks(zz.fence) \o TagChunks(zz.tag) >>
  \o [j \in 1..Len(zz.ls) |-> LineChunks(zz.ls[j])]
  \o << Pad(2 * d) \o Ticks(zz.fence) >>

Second == [fence |-> 3, tag |-> "json", ls |-> <<"assign", "word">>]    \* the fixed second zone of shape "two"

(* document shapes: lines of chunks; the zone under test is always reachable as key Z (or bare child of BLK) *)
Body(zz) ==
  CASE zz.shape = "top"   -> << <<"A", "::", "1">> >> \o ZoneAssign(0, "Z", zz) \o << <<"B", "::", "[", "x", ",", "y", "]">> >>
    [] zz.shape = "d1"    -> << <<"BLK", ":">>, <<"  ", "A", "::", "1">> >> \o ZoneAssign(1, "Z", zz) \o << <<"  ", "B", "::", "2">>, <<"C", "::", "3">> >>
    [] zz.shape = "d3"    -> << <<"BLK", ":">>, <<"  ", "IN", ":">>, <<"    ", "DEEP", ":">> >> \o ZoneAssign(3, "Z", zz) \o << <<"      ", "B", "::", "2">>, <<"  ", "C", "::", "3">> >>
    [] zz.shape = "sec"   -> << <<"U00A7", "1", "::", "S">> >> \o ZoneAssign(1, "Z", zz) \o << <<"  ", "B", "::", "A", "U2192", "B">>, <<"U00A7", "2", "::", "T">> >>
    [] zz.shape = "bare"  -> << <<"A", "::", "1">>, <<"BLK", ":">> >> \o ZoneBare(1, zz) \o << <<"C", "::", "3">> >>
    [] zz.shape = "baresib" -> << <<"BLK", ":">> >> \o ZoneBare(1, zz) \o << <<"  ", "B", "::", "2">> >>
    [] zz.shape = "two"   -> ZoneAssign(0, "Z", zz) \o ZoneAssign(0, "Y", Second) \o << <<"B", "::", "2">> >>
    [] zz.shape = "tworev" -> ZoneAssign(0, "Y", Second) \o ZoneAssign(0, "Z", zz) \o << <<"B", "::", "2">> >>
    [] zz.shape = "three" -> << <<"BLK", ":">> >> \o ZoneAssign(1, "Y", Second) \o ZoneAssign(1, "Z", zz) \o << <<"  ", "B", "::", "2">> >> \o ZoneAssign(0, "X", Second)
    [] zz.shape = "closedeep" ->       \* the closing fence sits 4 / 6 columns deeper than the opening one (a fence closes at any indentation)
         << <<"A", "::", "1">>, <<"Z", "::">>, Ticks(zz.fence) \o TagChunks(zz.tag) >> \o [j \in 1..Len(zz.ls) |-> LineChunks(zz.ls[j])]
         \o << Pad(IF zz.fence = 3 THEN 4 ELSE 6) \o Ticks(zz.fence), <<"B", "::", "[", "x", ",", "y", "]">> >>
    [] zz.shape = "cmt"   -> << <<"//", " ", "before">> >> \o ZoneAssign(0, "Z", zz) \o << <<"//", " ", "after">>, <<"B", "::", "2">> >>
    [] OTHER (* "last" : zone is the last thing, no END, no final newline *) -> << <<"A", "::", "1">> >> \o ZoneAssign(0, "Z", zz)

Render(zz) == << <<"===", "DOC", "===">> >> \o Body(zz) \o (IF zz.shape = "last" THEN <<>> ELSE << <<"===END===">> >>)

(* ---------------------------------------------------------------------------------- *)
(* what every pipeline must hand back                                                   *)
ZoneAbs(zz) == [fence |-> zz.fence, tag |-> zz.tag, lines |-> [j \in 1..Len(zz.ls) |-> LineEnc(zz.ls[j])]]
ExpectedZones(zz) == IF zz.shape = "two" THEN <<ZoneAbs(zz), ZoneAbs(Second)>>
                     ELSE IF zz.shape = "tworev" THEN <<ZoneAbs(Second), ZoneAbs(zz)>>
                     ELSE IF zz.shape = "three" THEN <<ZoneAbs(Second), ZoneAbs(zz), ZoneAbs(Second)>> ELSE <<ZoneAbs(zz)>>
(* neighbours: <<depth, key>> of every node that is not the zone, in order; values are checked by C02 *)
ExpectedOthers(zz) ==
  CASE zz.shape \in {"top", "closedeep"} -> << <<0, "A">>, <<0, "Z">>, <<0, "B">> >>
    [] zz.shape = "d1"    -> << <<0, "BLK">>, <<1, "A">>, <<1, "Z">>, <<1, "B">>, <<0, "C">> >>
    [] zz.shape = "d3"    -> << <<0, "BLK">>, <<1, "IN">>, <<2, "DEEP">>, <<3, "Z">>, <<3, "B">>, <<1, "C">> >>
    [] zz.shape = "sec"   -> << <<0, "S">>, <<1, "Z">>, <<1, "B">>, <<0, "T">> >>
    [] zz.shape = "bare"  -> << <<0, "A">>, <<0, "BLK">>, <<1, "">>, <<0, "C">> >>
    [] zz.shape = "baresib" -> << <<0, "BLK">>, <<1, "">>, <<1, "B">> >>
    [] zz.shape = "two"   -> << <<0, "Z">>, <<0, "Y">>, <<0, "B">> >>
    [] zz.shape = "tworev" -> << <<0, "Y">>, <<0, "Z">>, <<0, "B">> >>
    [] zz.shape = "three" -> << <<0, "BLK">>, <<1, "Y">>, <<1, "Z">>, <<1, "B">>, <<0, "X">> >>
    [] zz.shape = "cmt"   -> << <<0, "Z">>, <<0, "B">> >>
    [] OTHER              -> << <<0, "A">>, <<0, "Z">> >>

(* ---------------------------------------------------------------------------------- *)
Init == \E s \in Shapes : \E f \in Fences : \E t \in {"", "python", "python title=\"app.py\" linenos"} :
          z = [shape |-> s, fence |-> f, tag |-> t, ls |-> <<>>]
AddLine == /\ Len(z.ls) < MaxLines
           /\ \E id \in LineIds : /\ (id \in NeedsLongFence => z.fence >= 4)
                                  /\ z' = [z EXCEPT !.ls = Append(z.ls, id)]
Next == AddLine

EmitCase == PrintT(ToJson([z |-> z, lines |-> Render(z)]))
ShortRunsOnly == \A j \in DOMAIN z.ls : z.ls[j] \in NeedsLongFence => z.fence >= 4
=============================================================================
