---------------------------- MODULE SchemaDocs ----------------------------
(* C08 (document level), reused by C09/C10/C11: generated schema documents and instance blocks.  *)
(* schema   = a non-empty set of fields from FieldPool + an UNKNOWN_FIELDS policy                 *)
(* instance = for every schema field one of ok | bad | missing | null | dup_ok_last | dup_bad_last *)
(*            (duplicated key: the documented rule is that the last value is kept), plus an       *)
(*            optional field the schema does not know.                                            *)
(* Expected(case) = the set of fields that must be named by an error, the fields that may only be  *)
(* named by a warning, and the resulting status.                                                  *)
EXTENDS Naturals, Sequences, FiniteSets, TLC, Json

CONSTANTS MaxFields
VARIABLE sd        \* [fields |-> set of field names, policy, inst |-> [field -> state], unknown |-> BOOLEAN]

FieldPool == {"NAME", "LEVEL", "COUNT"}
(* chain of each field, an acceptable and an unacceptable value (as OCTAVE text) *)
(* (written with the ASCII alias & of the constraint operator; the harness copies it into the schema document) *)
ChainOf(f) == CASE f = "NAME" -> "REQ&TYPE[STRING]" [] f = "LEVEL" -> "OPT&ENUM[low,high,higher]" [] OTHER -> "REQ&TYPE[NUMBER]&RANGE[1,10]"
OkValue(f) == CASE f = "NAME" -> "\"some name\"" [] f = "LEVEL" -> "high" [] OTHER -> "5"
BadValue(f) == CASE f = "NAME" -> "42" [] f = "LEVEL" -> "hi" [] OTHER -> "11"
Required(f) == f \in {"NAME", "COUNT"}
States == {"ok", "bad", "missing", "null", "dup_ok_last", "dup_bad_last"}
Policies == {"REJECT", "WARN", "IGNORE", "NONE"}          \* NONE: no POLICY block (documented default: REJECT)

Init == \E fs \in (SUBSET FieldPool) \ {{}} : \E pol \in Policies :
          /\ Cardinality(fs) <= MaxFields
          /\ sd = [fields |-> fs, policy |-> pol, inst |-> [f \in fs |-> "unset"], unknown |-> FALSE, done |-> FALSE]
Fill == /\ ~sd.done
        /\ \E st \in [sd.fields -> States] : \E u \in BOOLEAN :
             sd' = [sd EXCEPT !.inst = st, !.unknown = u, !.done = TRUE]
Next == Fill
EmitCase == IF sd.done THEN PrintT(ToJson([fields |-> sd.fields, policy |-> sd.policy, unknown |-> sd.unknown,
                                           inst |-> [f \in sd.fields |-> sd.inst[f]],
                                           chains |-> [f \in sd.fields |-> ChainOf(f)],
                                           okv |-> [f \in sd.fields |-> OkValue(f)], badv |-> [f \in sd.fields |-> BadValue(f)]])) ELSE TRUE

(* ---------------------------------------------------------------------------------- *)
(* c = [fields (set), policy, unknown, inst (record field -> state)] *)
FinalState(st) == CASE st = "dup_ok_last" -> "ok" [] st = "dup_bad_last" -> "bad" [] OTHER -> st
MustError(c) == {f \in c.fields : LET s == FinalState(c.inst[f]) IN s = "bad" \/ (Required(f) /\ s \in {"missing", "null"})}
UnknownIsError(c) == c.unknown /\ c.policy \in {"REJECT", "NONE"}
UnknownIsWarning(c) == c.unknown /\ c.policy = "WARN"
ExpectedStatus(c) == IF MustError(c) # {} \/ UnknownIsError(c) THEN "INVALID" ELSE "VALIDATED"
=============================================================================
