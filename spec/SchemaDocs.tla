---------------------------- MODULE SchemaDocs ----------------------------
(* Generated schema documents and instance blocks (C08 document level, C09, C10, C11).           *)
(* schema   = a non-empty set of fields from FieldPool + an UNKNOWN_FIELDS policy                 *)
(* instance = for every schema field one STATE (what is written for it), plus an optional field   *)
(*            the schema does not know, plus spelling knobs (layout only)                         *)
(* The module says, per field and state, what text is written (ValueTexts), whether the field     *)
(* must be named by an error (MustError), what a schema repair may turn it into (RepairOf).       *)
EXTENDS Naturals, Sequences, FiniteSets, TLC, Json

CONSTANTS MaxFields,
          StateSet,     \* states the generator may use (subset of AllStates)
          Spell         \* TRUE: also enumerate the spelling knobs
VARIABLE sd

FieldPool == {"NAME", "LEVEL", "COUNT", "MODE"}
(* chains are written with the ASCII alias & of the constraint operator; the harness copies them into the schema document *)
ChainOf(f) == CASE f = "NAME" -> "REQ&TYPE[STRING]" [] f = "LEVEL" -> "OPT&ENUM[low,high,higher]"
                [] f = "MODE" -> "OPT&ENUM[Low,LOW,low,HIGH]"          \* three members differ in case only
                [] OTHER -> "REQ&TYPE[NUMBER]&RANGE[1,10]"
Required(f) == f \in {"NAME", "COUNT"}
AllStates == {"ok", "ok2", "bad", "missing", "null", "dup_ok_last", "dup_bad_last", "ambig", "casefold", "casefold2",
              "numstr", "numstr_out", "numbad", "numover", "numfloat", "numbig", "dup_numstr", "dup_casefold", "numedge", "numedge_ok",
              "casefold3", "casefold1", "casefold_pad", "casefold_padlow"}
Applicable(f, st) ==
  CASE st \in {"ambig", "casefold", "casefold2", "dup_casefold", "casefold_pad", "casefold_padlow"} -> f = "LEVEL"
    [] st \in {"casefold3", "casefold1"} -> f = "MODE"
    [] f = "MODE" -> st \in {"ok", "bad", "missing", "null"}
    [] st \in {"numstr", "numstr_out", "numbad", "numover", "numfloat", "numbig", "dup_numstr", "numedge", "numedge_ok"} -> f = "COUNT"
    [] OTHER -> TRUE
(* the OCTAVE text of the value(s) written for a field in a state (two texts = the key is written twice) *)
Ok(f)  == CASE f = "NAME" -> "\"some name\"" [] f = "LEVEL" -> "high" [] f = "MODE" -> "LOW" [] OTHER -> "5"
Ok2(f) == CASE f = "NAME" -> "\"True\"" [] f = "LEVEL" -> "low" [] OTHER -> "10"
Bad(f) == CASE f = "NAME" -> "42" [] f = "LEVEL" -> "nope" [] f = "MODE" -> "nope" [] OTHER -> "11"
ValueTexts(f, st) ==
  CASE st = "ok" -> <<Ok(f)>> [] st = "ok2" -> <<Ok2(f)>> [] st = "bad" -> <<Bad(f)>> [] st = "missing" -> <<>>
    [] st = "null" -> <<"null">> [] st = "dup_ok_last" -> <<Bad(f), Ok(f)>> [] st = "dup_bad_last" -> <<Ok(f), Bad(f)>>
    [] st = "ambig" -> <<"hi">> [] st = "casefold" -> <<"HIGH">> [] st = "casefold2" -> <<"Low">>
    [] st = "numstr" -> <<"\"7\"">> [] st = "numstr_out" -> <<"\"11\"">> [] st = "numbad" -> <<"\"7x\"">>
    [] st = "numover" -> <<"\"1e400\"">> [] st = "numbig" -> <<"\"9007199254740993\"">>
    [] st = "dup_numstr" -> <<"\"7\"", "\"7\"">> [] st = "dup_casefold" -> <<"HIGH", "HIGH">>
    [] st = "casefold3" -> <<"lOw">>          \* matches Low, LOW and low when case is ignored: ambiguous, must stay as written
    [] st = "casefold1" -> <<"high">>         \* matches only HIGH when case is ignored
    [] st = "casefold_pad" -> <<"\" HIGH \"">>     \* blanks around a word that differs in case: more than letter case separates it from the member - stays
    [] st = "casefold_padlow" -> <<"\"low \"">>    \* blanks around a member: not the member, and no change of case makes it one - stays
    [] st = "numedge" -> <<"10.000000000000002">>        \* the float next above the bound: out of RANGE[1,10] as long as no digit is lost
    [] st = "numedge_ok" -> <<"9.999999999999998">>      \* the float next below it
    [] OTHER (* numfloat *) -> <<"\"2.5\"">>
Policies == {"REJECT", "WARN", "IGNORE", "NONE"}          \* NONE: no POLICY block (documented default: REJECT)
(* where the routing target of a field comes from: written on the field | POLICY.DEFAULT_TARGET | nowhere (verdicts do not depend on it) *)
TargetModes == {"field", "default", "none"}

DefSp == [ind |-> 2, asg |-> "::", quote |-> FALSE, blank |-> FALSE, endOmit |-> FALSE]
Spellings == IF Spell THEN {[ind |-> i, asg |-> a, quote |-> qq, blank |-> b, endOmit |-> e] :
                              i \in {2, 4}, a \in {"::", " :: "}, qq \in BOOLEAN, b \in BOOLEAN, e \in BOOLEAN}
             ELSE {DefSp}

Init == \E fs \in (SUBSET FieldPool) \ {{}} : \E pol \in Policies : \E tg \in TargetModes :
          /\ Cardinality(fs) <= MaxFields
          /\ (tg = "default" => pol # "NONE")                   \* DEFAULT_TARGET lives in the POLICY block
          /\ sd = [fields |-> fs, policy |-> pol, tgt |-> tg, inst |-> [f \in fs |-> "unset"], unknown |-> FALSE, sp |-> DefSp, done |-> FALSE]
Fill == /\ ~sd.done
        /\ \E st \in [sd.fields -> StateSet] : \E u \in BOOLEAN : \E s \in Spellings :
             /\ \A f \in sd.fields : Applicable(f, st[f])
             /\ sd' = [sd EXCEPT !.inst = st, !.unknown = u, !.sp = s, !.done = TRUE]
Next == Fill
EmitCase == IF sd.done THEN PrintT(ToJson([fields |-> sd.fields, policy |-> sd.policy, tgt |-> sd.tgt, unknown |-> sd.unknown, sp |-> sd.sp,
                                           inst |-> [f \in sd.fields |-> sd.inst[f]],
                                           chains |-> [f \in sd.fields |-> ChainOf(f)],
                                           texts |-> [f \in sd.fields |-> ValueTexts(f, sd.inst[f])]])) ELSE TRUE

(* ---------------------------------------------------------------------------------- *)
(* c = [fields (set), policy, unknown, inst (field -> state)] *)
(* the verdict on the last value written for the field, by the semantics of Constraints.tla for these chains *)
Final(st) == CASE st \in {"ok", "ok2", "dup_ok_last", "numedge_ok"} -> "ok"
               [] st \in {"missing"} -> "missing" [] st = "null" -> "null"
               [] OTHER -> "bad"        \* bad, dup_bad_last, dup_numstr, dup_casefold, ambig, casefold(2) (ENUM is case-sensitive), numeric strings (TYPE[NUMBER])
MustError(c) == {f \in c.fields : LET s == Final(c.inst[f]) IN s = "bad" \/ (Required(f) /\ s \in {"missing", "null"})}
UnknownIsError(c) == c.unknown /\ c.policy \in {"REJECT", "NONE"}
UnknownIsWarning(c) == c.unknown /\ c.policy = "WARN"
ExpectedStatus(c) == IF MustError(c) # {} \/ UnknownIsError(c) THEN "INVALID" ELSE "VALIDATED"

(* what a schema repair (fix on) may turn the value of a field into: "same" = it must stay as written *)
RepairOf(st) == CASE st \in {"casefold", "dup_casefold"} -> "high" [] st = "casefold2" -> "low" [] st = "casefold1" -> "HIGH"
                  [] st \in {"numstr", "dup_numstr"} -> "7" [] st = "numstr_out" -> "11" [] st = "numfloat" -> "2.5"
                  [] st = "numbig" -> "9007199254740993"
                  [] OTHER -> "same"           \* incl. numbad ("7x"), numover ("1e400": not finite), ambig, bad, null, missing
=============================================================================
