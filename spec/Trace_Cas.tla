---------------------------- MODULE Trace_Cas ----------------------------
(* Trace validation for C17 (a): the real tool is stepped through a history; after every   *)
(* call the envelope and a before/after snapshot of the whole sandbox tree are recorded;    *)
(* this module runs the register of CasRegister.tla alongside and names what disagrees.     *)
EXTENDS CasRegister, IOUtils

Trace == ndJsonDeserialize(IOEnv.TRACE_FILE)
VARIABLES l, st, tid

StepFails(e, s) ==
  LET x == Expected(s, e.op) IN
  IF e.op.kind \in External THEN {}
  ELSE (IF e.obs.status = x.status THEN {} ELSE {"StatusAsRegister"})
       \cup (IF x.code = "-" \/ e.obs.status # "error" \/ e.obs.code = x.code THEN {} ELSE {"ErrorCode"})
       \cup (IF e.obs.status = "error" /\ e.obs.changed THEN {"ErrorLeavesFsUnchanged"} ELSE {})
       \cup (IF e.op.kind = "dry" /\ e.obs.changed THEN {"DryRunLeavesFsUnchanged"} ELSE {})
       \cup (IF e.obs.status = "ok" /\ e.op.kind # "dry" /\ ~e.obs.hash_ok THEN {"SuccessInstallsReturnedHash"} ELSE {})
       \cup (IF e.obs.status = "ok" /\ MustChange(s, e.op) /\ ~e.obs.target_changed THEN {"SuccessInstalls"} ELSE {})
       \cup (IF e.obs.status = "ok" /\ e.obs.changed /\ ~e.obs.only_target THEN {"OnlyTargetTouched"} ELSE {})

Report(i, f) == IF f = {} THEN TRUE ELSE PrintT(ToJson([i |-> i, fails |-> f]))

TInit == l = 1 /\ st = St0("absent") /\ tid = 0 /\ h = [init |-> "absent", ops |-> <<>>]
TNext == /\ l <= Len(Trace)
         /\ LET e == Trace[l]
                s == IF e.tid = tid THEN st ELSE St0(e.init)
            IN /\ Report(e.i, StepFails(e, s))
               \* the register follows the REAL outcome when it is one the register allows; otherwise the expected one
               /\ st' = Expected(s, e.op).st
               /\ tid' = e.tid
         /\ l' = l + 1 /\ UNCHANGED h
TAccepted == TLCGet("stats").diameter - 1 = Len(Trace)
=============================================================================
