---------------------------- MODULE Trace_Constraints ----------------------------
(* Trace validation for C08 (chain level): one record = one chain (sequence of constraint ids)  *)
(* evaluated by the real ConstraintChain on every value of the pool; the reference semantics of   *)
(* Constraints.tla is evaluated on the same (chain, value) pairs.                                 *)
EXTENDS Constraints, IOUtils
Trace == ndJsonDeserialize(IOEnv.TRACE_FILE)
VARIABLE l

OneFails(chn, o) ==
  LET v == Val(o.v)
      want == Verdict(chn, v)
  IN (IF (want = "accept" /\ ~o.valid) \/ (want = "reject" /\ o.valid) THEN {"VerdictEqual"} ELSE {})
     \cup (IF o.same_rev THEN {} ELSE {"OrderIndependent"})      \* a fresh process that met the values in the opposite order gave another verdict
     \cup (IF Conflict(chn) = "yes" /\ ~o.valid /\ {o.codes[j] : j \in DOMAIN o.codes} # {"E999"} THEN {"ConflictFirst"} ELSE {})
     \cup (IF Len(chn) = 1 /\ want = "reject" /\ ~o.valid /\ Conflict(chn) = "no"
              /\ ~({o.codes[j] : j \in DOMAIN o.codes} # {} /\ {o.codes[j] : j \in DOMAIN o.codes} \subseteq CodeOf(Cons(chn[1]), v))
           THEN {"CodeOfKind"} ELSE {})

FailsOf(r) == IF ~r.parse_ok THEN {"ChainParses"} ELSE UNION {OneFails(r.case.chain, r.obs[j]) : j \in DOMAIN r.obs}
At(r) == IF ~r.parse_ok THEN {} ELSE {r.obs[j].v : j \in {k \in DOMAIN r.obs : OneFails(r.case.chain, r.obs[k]) # {}}}
Judge(r) == LET f == FailsOf(r) IN IF f = {} THEN TRUE ELSE PrintT(ToJson([i |-> r.i, fails |-> f, at |-> At(r)]))
TInit == l = 1 /\ ch = <<>>
TNext == l <= Len(Trace) /\ Judge(Trace[l]) /\ l' = l + 1 /\ UNCHANGED ch
TAccepted == TLCGet("stats").diameter - 1 = Len(Trace)
=============================================================================
