---------------------------- MODULE Trace_Changes ----------------------------
(* Trace validation for C18: the generated requests are applied to the real file through         *)
(* octave_write(changes=...) / `octave write --changes`; the file is read back and projected.     *)
EXTENDS Changes, IOUtils
Trace == ndJsonDeserialize(IOEnv.TRACE_FILE)
VARIABLE l
Map(f(_), s) == [i \in DOMAIN s |-> f(s[i])]
KeyOf(it) == <<it.d, it.k, it.key>>
RouteFails(r, o) ==
  LET want == AbsDoc(ApplyAll(r.case.doc, r.case.reqs, 1)) IN
  IF ~o.ok THEN {"RequestAccepted:" \o o.route}
  ELSE (IF Map(KeyOf, o.after.body) = Map(KeyOf, want.body) THEN {} ELSE {"Effect:keys:" \o o.route})
       \cup (IF Map(KeyOf, o.after.body) = Map(KeyOf, want.body) /\ o.after.body # want.body THEN {"Effect:values:" \o o.route} ELSE {})
       \cup (IF o.after.meta = want.meta THEN {} ELSE {"Effect:meta:" \o o.route})
       \cup (IF o.after.env = want.env /\ o.after.sep = want.sep /\ o.after.fm = want.fm /\ o.after.sent = want.sent THEN {} ELSE {"Frame:header:" \o o.route})
       \cup (IF o.frame_lines_same THEN {} ELSE {"Frame:lines_of_unnamed_keys:" \o o.route})
FailsOf(r) == UNION {RouteFails(r, r.obs[j]) : j \in DOMAIN r.obs}
Judge(r) == LET f == FailsOf(r) IN IF f = {} THEN TRUE ELSE PrintT(ToJson([i |-> r.i, fails |-> f]))
TInit == l = 1 /\ reqs = <<>> /\ doc = [env |-> "DOC", sent |-> None, fm |-> None, meta |-> <<>>, sep |-> FALSE, body |-> <<>>, g |-> DefG]
TNext == l <= Len(Trace) /\ Judge(Trace[l]) /\ l' = l + 1 /\ UNCHANGED <<doc, reqs>>
TAccepted == TLCGet("stats").diameter - 1 = Len(Trace)
=============================================================================
