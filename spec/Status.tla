---------------------------- MODULE Status ----------------------------
(* C10 - validation_status is always present and never overstated.                           *)
(* Generator: abstract calls = tool x content class x schema class x profile x flag set       *)
(* (at most MaxFlags flags switched on at once).  The decision lattice below says what an      *)
(* envelope may claim for a call of each class; it is evaluated on every observed envelope.    *)
EXTENDS Naturals, Sequences, FiniteSets, TLC, Json

CONSTANT MaxFlags
VARIABLE cl

Tools == {"validate", "write", "eject", "grammar", "cli_validate", "cli_write", "write_changes", "cli_write_changes"}
   \* *_changes: the file holds a document of the OPPOSITE class and the amendment turns it into the content class of the call
   \* (valid -> invalid by a value outside an enum / invalid -> valid): the status must describe what is written
Contents == {"valid", "invalid", "strict_only", "extra_field", "unparseable", "empty"}
   \* valid / invalid relative to the schema of the call; strict_only: only STRICT finds fault (an undeclared META field);
   \* extra_field: valid plus a field the schema block does not declare (an error under REJECT, advisory under WARN)
Schemas == {"builtin_meta", "packaged_file", "generated", "generated_warn", "unknown", "pathlike", "lowercase",
            "frozen_good", "frozen_bad_digest", "frozen_malformed", "latest_missing", "generated_rewritten", "generated_removed",
            "generated_utf16", "generated_binary"}
   \* generated_utf16 / generated_binary: the name resolves to a file that is not UTF-8 text (saved as UTF-16 with a BOM / arbitrary bytes):
   \* no schema can be had from it, so nothing was validated
   \* generated_rewritten: the same process used the name before, when the file held a permissive schema; the file now holds the
   \* schema of class "generated".  generated_removed: the process used the name before; the file has been deleted since.
Profiles == {"STRICT", "STANDARD", "LENIENT", "ULTRA"}
FlagsOf(t) == CASE t = "validate" -> {"fix", "diff_only", "compact", "grammar_hint", "debug_grammar"}
                [] t = "write" -> {"lenient", "corrections_only", "grammar_hint", "debug_grammar"}
                [] t = "eject" -> {"mode_authoring", "mode_executive", "mode_developer", "fmt_json", "fmt_yaml", "fmt_markdown", "fmt_gbnf"}
                [] t = "grammar" -> {"json_schema", "by_content"}
                [] t = "cli_validate" -> {"fix"}
                [] t = "write_changes" -> {"corrections_only", "grammar_hint"}
                [] OTHER -> {}
ProfilesOf(t) == IF t = "validate" THEN Profiles ELSE {"STANDARD"}
FlagOK(t, fs) == ~({"mode_authoring", "mode_executive"} \subseteq fs) /\ ~({"mode_authoring", "mode_developer"} \subseteq fs)
                 /\ ~({"mode_executive", "mode_developer"} \subseteq fs) /\ Cardinality(fs \cap {"fmt_json", "fmt_yaml", "fmt_markdown", "fmt_gbnf"}) <= 1

(* the profile is an enumeration spelled in capitals; the tool folds case, so "strict" and "Strict" name the same profile *)
Spellings(t) == IF t = "validate" THEN {"upper", "lower", "title"} ELSE {"upper"}
Init == \E t \in Tools, c \in Contents, s \in Schemas, p \in Profiles, sp \in {"upper", "lower", "title"} :
          /\ p \in ProfilesOf(t) /\ sp \in Spellings(t)
          /\ (t \in {"write_changes", "cli_write_changes"} => c \in {"valid", "invalid"} /\ s \in {"builtin_meta", "unknown"})
          /\ cl = [tool |-> t, content |-> c, schema |-> s, profile |-> p, spell |-> sp, flags |-> {}, done |-> FALSE]
Choose == /\ ~cl.done
          /\ \E fs \in SUBSET FlagsOf(cl.tool) : /\ Cardinality(fs) <= MaxFlags /\ FlagOK(cl.tool, fs)
                                                 /\ cl' = [cl EXCEPT !.flags = fs, !.done = TRUE]
Next == Choose
EmitCase == IF cl.done THEN PrintT(ToJson([tool |-> cl.tool, content |-> cl.content, schema |-> cl.schema,
                                           profile |-> cl.profile, spell |-> cl.spell, flags |-> cl.flags])) ELSE TRUE

(* ---------------------------------------------------------------------------------- *)
(* the decision lattice; c = the call (flags as a set), o = the observed envelope       *)
(* can the tool find a schema of this class at all?  (frozen@/latest are resolved by octave_write only;    *)
(*  eject and compile_grammar never apply a schema; the CLI knows the builtin META dictionary only)        *)
MayBeFound(c) ==
  CASE c.tool \in {"eject", "grammar"} -> FALSE
    [] c.tool \in {"cli_validate", "cli_write", "cli_write_changes"} -> c.schema = "builtin_meta"
    [] c.tool = "validate" -> c.schema \in {"builtin_meta", "packaged_file", "generated", "generated_warn", "generated_rewritten"}
    [] OTHER -> c.schema \in {"builtin_meta", "packaged_file", "generated", "generated_warn", "frozen_good", "generated_rewritten"}
Faulty(c) == c.content = "invalid" \/ (c.content = "extra_field" /\ c.schema \in {"generated", "frozen_good", "generated_rewritten"})    \* UNKNOWN_FIELDS::REJECT
             \/ (c.content = "strict_only" /\ c.tool = "validate" /\ c.profile = "STRICT" /\ c.schema = "builtin_meta")
Downgrades(c) == c.tool = "validate" /\ c.profile \in {"LENIENT", "ULTRA"}      \* documented: errors become warnings

Fails(c, o) ==
     (IF o.status = "MISSING" THEN {"Present"} ELSE {})
  \cup (IF o.status \in {"VALIDATED", "UNVALIDATED", "INVALID", "MISSING"} THEN {} ELSE {"InDomain"})
  \cup (IF o.status = "VALIDATED" /\ ~MayBeFound(c) THEN {"ValidatedOnlyIfSchemaFound"} ELSE {})
  \cup (IF o.status = "VALIDATED" /\ c.content = "unparseable" THEN {"ValidatedOnlyIfParsed"} ELSE {})
  \cup (IF o.status = "VALIDATED" /\ Faulty(c) /\ ~Downgrades(c) /\ c.content # "empty" THEN {"ValidatedOnlyWithoutBlockingError"} ELSE {})
  \cup (IF o.status # "UNVALIDATED" /\ ~MayBeFound(c) /\ o.status # "MISSING" THEN {"UnvalidatedIfSchemaNotFound"} ELSE {})
  \cup (IF o.status # "UNVALIDATED" /\ c.content = "unparseable" /\ o.status # "MISSING" THEN {"UnvalidatedIfParseFails"} ELSE {})
  \cup (IF o.status = "INVALID" /\ ~(o.nerrors >= 1 /\ o.has_name /\ o.has_version) THEN {"InvalidHasErrorsAndSchema"} ELSE {})
  \cup (IF o.status = "INVALID" /\ Downgrades(c) THEN {"InvalidOnlyStrictStandard"} ELSE {})
  \cup (IF o.valid # "-" /\ (o.valid = "true") # (o.status = "VALIDATED") THEN {"ValidIffValidated"} ELSE {})
  \cup (IF o.status = "VALIDATED" /\ o.again \notin {"-", "VALIDATED"} THEN {"Revalidates"} ELSE {})
  \cup (IF c.tool = "cli_validate" /\ o.status = "INVALID" /\ o.exit = 0 THEN {"CliExitCode"} ELSE {})   \* documented for `octave validate`
=============================================================================
