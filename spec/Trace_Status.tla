---------------------------- MODULE Trace_Status ----------------------------
EXTENDS Status, IOUtils
Trace == ndJsonDeserialize(IOEnv.TRACE_FILE)
VARIABLE l
Norm(c) == [tool |-> c.tool, content |-> c.content, schema |-> c.schema, profile |-> c.profile, flags |-> {c.flags[j] : j \in DOMAIN c.flags}]
Judge(r) == LET f == Fails(Norm(r.case), r.obs) IN IF f = {} THEN TRUE ELSE PrintT(ToJson([i |-> r.i, fails |-> f]))
TInit == l = 1 /\ cl = [tool |-> "validate", content |-> "valid", schema |-> "unknown", profile |-> "STANDARD", spell |-> "upper", flags |-> {}, done |-> TRUE]
TNext == l <= Len(Trace) /\ Judge(Trace[l]) /\ l' = l + 1 /\ UNCHANGED cl
TAccepted == TLCGet("stats").diameter - 1 = Len(Trace)
=============================================================================
