---------------------------- MODULE Trace_SchemaDocs ----------------------------
(* Trace validation for C08 (document level): the generated schema is put on the schema search *)
(* path, the instance is validated with octave_validate / the Validator API; observed: status,   *)
(* the fields named by errors (severity error) and by warnings.                                  *)
EXTENDS SchemaDocs, IOUtils
Trace == ndJsonDeserialize(IOEnv.TRACE_FILE)
VARIABLE l
Set(s) == {s[j] : j \in DOMAIN s}
RouteFails(c, o) ==
     (IF MustError(c) \subseteq Set(o.error_fields) THEN {} ELSE {"MissingOrBadNamed:" \o o.route})
  \cup (IF Set(o.error_fields) \cap c.fields \subseteq MustError(c) THEN {} ELSE {"NoSpuriousFieldError:" \o o.route})
  \cup (IF UnknownIsError(c) /\ "EXTRA" \notin Set(o.error_fields) THEN {"UnknownRejectNamed:" \o o.route} ELSE {})
  \cup (IF UnknownIsWarning(c) /\ "EXTRA" \in Set(o.error_fields) THEN {"WarnOnlyWarning:error:" \o o.route} ELSE {})
  \cup (IF UnknownIsWarning(c) /\ "EXTRA" \notin Set(o.warning_fields) THEN {"WarnOnlyWarning:missing:" \o o.route} ELSE {})
  \cup (IF c.unknown /\ c.policy = "IGNORE" /\ "EXTRA" \in (Set(o.error_fields) \cup Set(o.warning_fields)) THEN {"IgnoreSilent:" \o o.route} ELSE {})
  \cup (IF o.status = "-" \/ o.status = ExpectedStatus(c) THEN {} ELSE {"StatusFollows:" \o o.route})
Norm(c) == [fields |-> Set(c.fields), policy |-> c.policy, unknown |-> c.unknown, inst |-> c.inst]   \* JSON arrays -> sets
FailsOf(r) == UNION {RouteFails(Norm(r.case), r.obs[j]) : j \in DOMAIN r.obs}
Judge(r) == LET f == FailsOf(r) IN IF f = {} THEN TRUE ELSE PrintT(ToJson([i |-> r.i, fails |-> f]))
TInit == l = 1 /\ sd = [fields |-> {}, policy |-> "NONE", tgt |-> "field", inst |-> <<>>, unknown |-> FALSE, sp |-> DefSp, done |-> TRUE]
TNext == l <= Len(Trace) /\ Judge(Trace[l]) /\ l' = l + 1 /\ UNCHANGED sd
TAccepted == TLCGet("stats").diameter - 1 = Len(Trace)
=============================================================================
