---------------------------- MODULE Content ----------------------------
(* The abstract OCTAVE document: WHAT a document contains, independently of how it is    *)
(* spelled and of the parser.  A model document is                                        *)
(*   [env, sent, fm, meta, sep, body, g]                                                  *)
(*   env   envelope name ("INFERRED" = none written / inferred)                           *)
(*   sent  grammar sentinel version or "-"                                                *)
(*   fm    frontmatter id or "-"                                                          *)
(*   meta  sequence of META entries [key, v, nested, sp]  (v = "-" => nested block)        *)
(*   sep   TRUE iff the --- separator follows META                                        *)
(*   body  PRE-ORDER list of items; the depth d of an item encodes its parent exactly as  *)
(*         indentation does in the text                                                   *)
(*   g     document-level spelling knobs (layout only)                                    *)
(* An item is [d, k, key, v, tgt, sid, ann, trail, sp]:                                    *)
(*   k = "assign" (key, value id v, optional trailing comment id trail)                   *)
(*     | "block"  (key, optional target tgt)                                              *)
(*     | "section"(section id sid, name key, optional annotation id ann)                  *)
(*     | "comment"(comment id in key)                                                     *)
(* sp holds spelling knobs only and is ignored by everything in this module.              *)
EXTENDS Values, TLC

None == "-"
NoVal == [t |-> "none", s |-> "", xs |-> <<>>]

(* comment texts, frontmatter texts, annotations: small fixed pools *)
CommentText(c) == CASE c = "c1" -> "note one" [] c = "c2" -> "second: a -> b" [] c = "c3" -> "was \"ROLE\" then AGENT{primary}" [] OTHER -> "?"
(* the same text in the {Uxxxx} encoding of observations *)
CommentEnc(c) == IF c = "c3" THEN "was \"ROLE\" then AGENT{U007B}primary}" ELSE CommentText(c)
CommentIds == {"c1", "c2", "c3"}
FmLines(f) == CASE f = "fm1" -> <<"name: Agent (Specialist)", "tags: [a, b]">>
                [] f = "fm2" -> <<"title: x">>
                [] f = "fm3" -> <<"title: x", "", "">>          \* ends with blank lines before the closing --- (they are part of the frontmatter)
                [] OTHER -> <<>>
FmText(f) == CASE f = "fm1" -> "name: Agent (Specialist){U000A}tags: [a, b]" [] f = "fm2" -> "title: x" [] f = "fm3" -> "title: x{U000A}{U000A}" [] OTHER -> "-"
AnnText(a) == CASE a = "a1" -> "note" [] a = "a2" -> "x,y" [] OTHER -> "-"

IsContainer(it) == it.k \in {"block", "section"}

(* depth discipline of a pre-order list: the first item is at depth 0; an item may be one  *)
(* deeper than its predecessor only if the predecessor is a container                      *)
RECURSIVE WellFormedFrom(_, _)
WellFormedFrom(body, i) ==
  IF i > Len(body) THEN TRUE
  ELSE /\ (i = 1 => body[i].d = 0)
       /\ (i > 1 => body[i].d <= (IF IsContainer(body[i-1]) THEN body[i-1].d + 1 ELSE body[i-1].d))
       /\ WellFormedFrom(body, i + 1)
WellFormed(body) == WellFormedFrom(body, 1)

(* ---------------------------------------------------------------------------------- *)
(* abstraction: what a reader must report for the document (compared field by field    *)
(* with the projection of the implementation's AST)                                    *)
AbsItem(it) ==
  [d     |-> IF it.k = "comment" THEN 0 ELSE it.d,      \* comments: order matters, depth is layout
   k     |-> it.k,
   key   |-> IF it.k = "comment" THEN CommentEnc(it.key) ELSE it.key,
   v     |-> IF it.k = "assign" THEN Abs(it.v) ELSE NoVal,
   tgt   |-> it.tgt,
   sid   |-> it.sid,
   ann   |-> AnnText(it.ann),
   trail |-> IF it.trail = None THEN None ELSE CommentEnc(it.trail)]

AbsBody(doc) == [i \in 1..Len(doc.body) |-> AbsItem(doc.body[i])]

AbsMetaEntry(e) ==
  [key |-> e.key,
   v   |-> IF e.v # None THEN Abs(e.v)
           ELSE [t |-> "map", s |-> "", xs |-> [j \in 1..Len(e.nested) |->
                   [t |-> "pair", s |-> e.nested[j].key, xs |-> <<Abs(e.nested[j].v)>>]]]]
(* duplicate META keys: documented last-wins; the generator never produces them *)
AbsMeta(doc) == [i \in 1..Len(doc.meta) |-> AbsMetaEntry(doc.meta[i])]

AbsDoc(doc) == [env |-> doc.env, sent |-> doc.sent, fm |-> FmText(doc.fm), meta |-> AbsMeta(doc),
                sep |-> doc.sep, body |-> AbsBody(doc)]

(* leaves of a document: (path of keys, value) pairs - used by the projection properties *)
Keys(doc) == {doc.body[i].key : i \in {j \in 1..Len(doc.body) : doc.body[j].k # "comment"}}
=============================================================================
