---------------------------- MODULE OctaveSystem ----------------------------
(* System level: a workspace of files and the tools as actions over it.                          *)
(*                                                                                                *)
(* Phase 1 (Author!AddItem) grows a document; phase 2 is a life of the workspace: every step is    *)
(* one call of a real entry point (octave_write with content / with changes / dry, with and         *)
(* without base_hash; octave_validate; octave_eject; `octave seal`, `octave normalize`; an editor    *)
(* outside the tools replacing or removing a file).  The state is what the property statements       *)
(* talk about: per path the abstract document the file holds and the content its seal was made on.   *)
(* Every step appends to `log` what the call is and what the specification expects of it: whether    *)
(* it is accepted, what each file then holds, and what a seal check then answers.  The harness        *)
(* replays the log into the real tools on a scratch directory and spec/Trace_System.tla compares      *)
(* every expectation with what happened (and that no other file moved).                               *)
(*                                                                                                  *)
(* This composes C01 (what a tool writes is canonical and re-readable by the next tool), C02 (the    *)
(* file holds the content sent), C15 (a seal verifies exactly as long as the content is the sealed    *)
(* content), C17 (base_hash binds to the bytes of the file as the previous call left them; refused    *)
(* and dry calls change nothing) and C18 (changes touch only the named key) over histories instead    *)
(* of single calls.                                                                                   *)
EXTENDS Changes

CONSTANTS Paths, MaxSteps, SysReqs     \* SysReqs: the change requests used (a subset of Changes!Requests)
VARIABLES ws, log

SysReqsSmall == {[key |-> "K1", op |-> "value", v |-> "two"], [key |-> "K1", op |-> "DELETE", v |-> "-"], [key |-> "K2", op |-> "null", v |-> "-"]}
SysReqsAll == SysReqsSmall \cup {[key |-> "K3", op |-> "value", v |-> "l3"], [key |-> "META.VERSION", op |-> "value", v |-> "numstr"],
                                [key |-> "K2", op |-> "value", v |-> "int"]}
SysReqsNone == {}

NoDoc == [env |-> "DOC", sent |-> None, fm |-> None, meta |-> <<>>, sep |-> FALSE, body |-> <<>>, g |-> DefG]
Gone == [st |-> "absent", d |-> NoDoc, sealed |-> FALSE, sd |-> NoDoc]
File(d) == [st |-> "file", d |-> d, sealed |-> FALSE, sd |-> NoDoc]

Reqs(d) == {r \in SysReqs : Requestable(d, r)}
Contents == {doc} \cup {Apply1(doc, r) : r \in Reqs(doc)}                      \* what a client may send
SealStatus(f) == IF f.st = "absent" THEN "ABSENT" ELSE IF ~f.sealed THEN "NO_SEAL"
                 ELSE IF AbsDoc(f.d) = AbsDoc(f.sd) THEN "VERIFIED" ELSE "INVALID"
Holds(f) == IF f.st = "absent" THEN [there |-> FALSE, abs |-> AbsDoc(NoDoc)] ELSE [there |-> TRUE, abs |-> AbsDoc(f.d)]

Step(act, p, arg, ok, w) ==
  /\ log' = Append(log, [act |-> act, path |-> p, arg |-> arg, ok |-> ok,
                         holds |-> [q \in Paths |-> Holds(w[q])], seal |-> [q \in Paths |-> SealStatus(w[q])]])
  /\ ws' = w
  /\ UNCHANGED <<doc, reqs>>
NoArg == [lines |-> <<>>, final |-> 1, req |-> [key |-> "-", op |-> "-", v |-> "-"], hash |-> "none"]

(* octave_write(content): hash = none | match (the bytes the file holds now) | stale (any other hash) *)
WriteContent(p) == \E c \in Contents, h \in {"none", "match", "stale"} :
  /\ h # "none" => ws[p].st = "file"
  /\ LET arg == [NoArg EXCEPT !.lines = Render(c), !.final = c.g.final, !.hash = h] IN
     IF h = "stale" THEN Step("write", p, arg, FALSE, ws)
     ELSE Step("write", p, arg, TRUE, [ws EXCEPT ![p] = File(c)])
(* octave_write(changes): the seal section is not a named key, so it stays; the content under it may move *)
WriteChanges(p) == \E r \in Reqs(ws[p].d), h \in {"none", "match", "stale"} :
  /\ ws[p].st = "file"
  /\ LET arg == [NoArg EXCEPT !.req = r, !.hash = h] IN
     IF h = "stale" THEN Step("amend", p, arg, FALSE, ws)
     ELSE Step("amend", p, arg, TRUE, [ws EXCEPT ![p].d = Apply1(@, r)])
(* octave_write(content, mutations): the META overrides of `mutations` are applied to the content sent *)
MetaReqs(d) == {r \in Reqs(d) : IsMetaKey(r.key)}
WriteMutated(p) == \E c \in Contents : \E m \in MetaReqs(c) :
  Step("write_mutated", p, [NoArg EXCEPT !.lines = Render(c), !.final = c.g.final, !.req = m], TRUE, [ws EXCEPT ![p] = File(Apply1(c, m))])
(* `octave write FILE --content TEXT [--base-hash H]`, `octave write FILE --changes JSON [--base-hash H]`: the CLI twins of the two  *)
(* write modes - another process, the same files, the same rules                                                                        *)
CliWriteContent(p) == \E c \in Contents, h \in {"none", "match", "stale"} :
  /\ h # "none" => ws[p].st = "file"
  /\ LET arg == [NoArg EXCEPT !.lines = Render(c), !.final = c.g.final, !.hash = h] IN
     IF h = "stale" THEN Step("cli_write", p, arg, FALSE, ws)
     ELSE Step("cli_write", p, arg, TRUE, [ws EXCEPT ![p] = File(c)])
CliWriteChanges(p) == \E r \in Reqs(ws[p].d), h \in {"none", "match", "stale"} :
  /\ ws[p].st = "file"
  /\ LET arg == [NoArg EXCEPT !.req = r, !.hash = h] IN
     IF h = "stale" THEN Step("cli_amend", p, arg, FALSE, ws)
     ELSE Step("cli_amend", p, arg, TRUE, [ws EXCEPT ![p].d = Apply1(@, r)])
(* a preview of an amendment (changes + corrections_only): nothing moves, now or later *)
DryChanges(p) == \E r \in Reqs(ws[p].d) : ws[p].st = "file" /\ Step("dry_amend", p, [NoArg EXCEPT !.req = r], TRUE, ws)
(* dry run: corrections_only *)
DryRun(p) == \E c \in Contents : Step("dry", p, [NoArg EXCEPT !.lines = Render(c), !.final = c.g.final], TRUE, ws)
(* readers: the file is an argument, never a result *)
Validate(p) == ws[p].st = "file" /\ Step("validate", p, NoArg, TRUE, ws)
Eject(p) == ws[p].st = "file" /\ Step("eject", p, NoArg, TRUE, ws)
(* octave_validate(file_path, fix=true) shows repairs, it never stores them; `octave validate f --verify-seal` exits 1 exactly when *)
(* the file carries a seal made on other content                                                                                    *)
ValidateFix(p) == ws[p].st = "file" /\ Step("validate_fix", p, NoArg, TRUE, ws)
CliVerifySeal(p) == ws[p].st = "file" /\ Step("cli_verify", p, NoArg, SealStatus(ws[p]) # "INVALID", ws)
(* `octave seal f -o f`, `octave normalize f -o f` *)
SealFile(p) == ws[p].st = "file" /\ Step("seal", p, NoArg, TRUE, [ws EXCEPT ![p].sealed = TRUE, ![p].sd = ws[p].d])
Normalize(p) == ws[p].st = "file" /\ Step("normalize", p, NoArg, TRUE, ws)
(* somebody else: replaces the file with a (canonical) text of another content, or removes it *)
Edit(p) == \E c \in Contents : Step("edit", p, [NoArg EXCEPT !.lines = Render(c), !.final = c.g.final], TRUE, [ws EXCEPT ![p] = File(c)])
Remove(p) == ws[p].st = "file" /\ Step("remove", p, NoArg, TRUE, [ws EXCEPT ![p] = Gone])

SInit == Init /\ reqs = <<>> /\ ws = [p \in Paths |-> Gone] /\ log = <<>>
SGrow == log = <<>> /\ AddItem /\ UNCHANGED <<reqs, ws, log>>
Serve == /\ Len(log) < MaxSteps /\ (doc.body # <<>> \/ doc.meta # <<>>)
         /\ \E p \in Paths : WriteContent(p) \/ WriteChanges(p) \/ WriteMutated(p) \/ DryChanges(p) \/ DryRun(p) \/ Validate(p) \/ Eject(p) \/ SealFile(p)
                             \/ Normalize(p) \/ Edit(p) \/ Remove(p) \/ CliWriteContent(p) \/ CliWriteChanges(p) \/ ValidateFix(p) \/ CliVerifySeal(p)
SNext == SGrow \/ Serve

EmitLife == IF Len(log) = MaxSteps THEN PrintT(ToJson([doc |-> doc, log |-> log])) ELSE TRUE

(* in-model: a refused or reading step leaves the workspace as it was; a seal never verifies on other content *)
RefusedChangesNothing == \A i \in DOMAIN log : (~log[i].ok /\ i > 1) => log[i].holds = log[i - 1].holds /\ log[i].seal = log[i - 1].seal
ReadersChangeNothing == \A i \in DOMAIN log : (i > 1 /\ log[i].act \in {"validate", "validate_fix", "cli_verify", "eject", "dry", "dry_amend"})
                                                  => log[i].holds = log[i - 1].holds /\ log[i].seal = log[i - 1].seal
SealFollowsContent == \A p \in Paths : ws[p].sealed /\ AbsDoc(ws[p].d) # AbsDoc(ws[p].sd) => SealStatus(ws[p]) = "INVALID"
=============================================================================
