---------------------------- MODULE Trace_Seal ----------------------------
EXTENDS Seal, IOUtils
Trace == ndJsonDeserialize(IOEnv.TRACE_FILE)
VARIABLE l
FailsOf(r) == {r.obs[j].kind : j \in {k \in DOMAIN r.obs : r.obs[k].status # Expected(r.obs[k].kind)}}
Judge(r) == LET f == FailsOf(r) IN IF f = {} THEN TRUE ELSE PrintT(ToJson([i |-> r.i, fails |-> f]))
TInit == l = 1 /\ mut = NoMut /\ doc = [env |-> "DOC", sent |-> None, fm |-> None, meta |-> <<>>, sep |-> FALSE, body |-> <<>>, g |-> DefG]
TNext == l <= Len(Trace) /\ Judge(Trace[l]) /\ l' = l + 1 /\ UNCHANGED <<doc, mut>>
TAccepted == TLCGet("stats").diameter - 1 = Len(Trace)
=============================================================================
