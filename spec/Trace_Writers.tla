---------------------------- MODULE Trace_Writers ----------------------------
(* Trace validation for C17 (b): one record = one schedule of CasWriters.tla imposed on real *)
(* writer threads (parked at every operation on the shared target).  Observed facts: each    *)
(* writer's result, the steps it actually took, and for every replace the content that was    *)
(* present at that moment.                                                                   *)
EXTENDS Naturals, Sequences, FiniteSets, TLC, Json, IOUtils
Trace == ndJsonDeserialize(IOEnv.TRACE_FILE)
VARIABLE l

Fails(r) ==
     (IF r.obs.steps_as_model THEN {} ELSE {"StepsAsModel"})
  \cup (IF r.obs.res = r.case.res THEN {} ELSE {"ResultsAsModel"})
  \cup (IF \A j \in DOMAIN r.obs.installs : r.obs.installs[j].base => r.obs.installs[j].match THEN {} ELSE {"InstallOnlyOnMatch"})
  \cup (IF r.obs.winners_with_base <= 1 THEN {} ELSE {"AtMostOneWinner"})
  \cup (IF r.obs.final_is_last_install THEN {} ELSE {"FinalIsLastInstall"})
  \cup (IF r.obs.losers_left_no_trace THEN {} ELSE {"FailedCallLeavesFsUnchanged"})
Judge(r) == LET f == Fails(r) IN IF f = {} THEN TRUE ELSE PrintT(ToJson([i |-> r.i, fails |-> f]))
TInit == l = 1
TNext == l <= Len(Trace) /\ Judge(Trace[l]) /\ l' = l + 1
TAccepted == TLCGet("stats").diameter - 1 = Len(Trace)
=============================================================================
