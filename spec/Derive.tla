---------------------------- MODULE Derive ----------------------------
(* C13, stage 2: the field rules OBSERVED in compiled grammars come back as data (rule body     *)
(* trees, IOEnv.RULES_FILE; characters are code points); the reachable states are                 *)
(* <<rule, derivable string>>: TLC enumerates the language of every rule (Gbnf!Lang: repetitions   *)
(* capped at lo..hi plus one long uniform repetition, character classes instantiated with the      *)
(* representatives listed in the tree) and emits each string for the reader + validator stage.     *)
EXTENDS Gbnf, IOUtils
Rules == ndJsonDeserialize(IOEnv.RULES_FILE)
VARIABLE dv
DInit == dv = [r |-> 0, w |-> <<>>] /\ gs = [fields |-> <<>>, route |-> "-", envelope |-> FALSE]
DPick == /\ dv.r = 0
         /\ \E r \in DOMAIN Rules : \E w \in Lang(Rules[r].body) : dv' = [r |-> r, w |-> w]
         /\ UNCHANGED gs
DNext == DPick
EmitDerived == IF dv.r # 0 THEN PrintT(ToJson([rule |-> Rules[dv.r].id, w |-> dv.w])) ELSE TRUE
=============================================================================
