---------------------------- MODULE NameSpace ----------------------------
(* C19 - schema names and frozen references.  Generator: every string of up to MaxLen symbols *)
(* over one representative of each character class a name can be attacked with.  Oracle: a     *)
(* name may make the loader open a file only inside the packaged / project schema directories; *)
(* a frozen reference resolves only to a cache file whose bytes hash to the digest.            *)
EXTENDS Naturals, Sequences, TLC, Json
CONSTANTS MaxLen
VARIABLE nm
Sigma == {"A", "a", "0", "_", ".", "/", "-", "\\", "U0000", "U00E9", " ", "U000A"}
Init == nm = <<>>
Extend == Len(nm) < MaxLen /\ \E c \in Sigma : nm' = Append(nm, c)
Next == Extend
EmitCase == IF nm # <<>> THEN PrintT(ToJson([name |-> nm])) ELSE TRUE
(* judged on observed facts: where were files opened, and what came back *)
NameFails(o) == (IF o.opened_elsewhere = 0 THEN {} ELSE {"SchemaDirsOnly:" \o o.route})
           \cup (IF o.loaded /\ ~o.loaded_from_schema_dir THEN {"SchemaDirsOnly:loaded:" \o o.route} ELSE {})
=============================================================================
