---------------------------- MODULE SpanMutations ----------------------------
(* C20: mutations of the packaged specifications, primers and schemas.  A mutation is an       *)
(* action on a text seen as a sequence of units (lines or characters): delete / insert /        *)
(* duplicate / transpose a span.  Positions and lengths are grid points (per mille of the        *)
(* text), so the same plan applies to every file; the harness applies it to the real text.       *)
EXTENDS Naturals, Sequences, TLC, Json
CONSTANTS NFiles, Grid, Lens
VARIABLE m
Ops == {"delete", "insert", "duplicate", "transpose"}
Units == {"line", "char"}
Init == m = [file |-> 0, op |-> "none", unit |-> "line", at |-> 0, len |-> 0, to |-> 0]
Pick == /\ m.op = "none"
        /\ \E f \in 1..NFiles, o \in Ops, u \in Units, a \in Grid, n \in Lens, t \in Grid :
             /\ (o # "transpose" => t = 0)
             /\ m' = [file |-> f, op |-> o, unit |-> u, at |-> a, len |-> n, to |-> t]
Next == Pick
EmitCase == IF m.op # "none" THEN PrintT(ToJson(m)) ELSE TRUE
=============================================================================
