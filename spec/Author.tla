---------------------------- MODULE Author ----------------------------
(* Generator of documents: the reachable states of this machine are exactly the documents *)
(* (content + spelling) of the surface grammar up to the bounds given by the constants.    *)
(* Init chooses the header (envelope, sentinel, frontmatter, META, separator) and the      *)
(* document-level spelling knobs; every AddItem step appends one item in pre-order with its *)
(* own spelling knobs.  The total number of knobs deviating from the plainest spelling is   *)
(* bounded by MaxDev, so the state graph contains every combination of <= MaxDev lenient    *)
(* rewrites at independent sites.  Every reachable state is a complete document (a case).   *)
EXTENDS Surface, Json

CONSTANTS MaxItems,     \* bound on the number of body items
          MaxDepth,     \* bound on nesting depth
          MaxDev,       \* bound on simultaneously deviating spelling knobs
          PoolA, PoolB, PoolC,   \* value ids allowed for the 1st / 2nd / later assignment
          HeaderMode,   \* "plain" : only the default header ; "all" : every header variant
          HeaderMaxBody,\* body length allowed under a non-default header
          Feat,         \* enabled features: subset of FeatAll
          Knobs         \* spelling knobs that may deviate: subset of KnobsAll
VARIABLE doc

KnobsAll == {"alt", "pre", "post", "blank", "trsp", "op", "cind", "ind", "envOmit", "endOmit", "final"}
FeatAll == {"block", "target", "section", "annot", "comment", "trail", "zonechild", "dupkey", "cind", "filterkeys", "hoist", "c3"}

KeysFor(i) == IF i = 1 THEN {"A"} ELSE IF "dupkey" \in Feat THEN {"A", "B"} ELSE {"B"}
FilterKeys == {"STATUS", "TESTS"}
PoolFor(i) == IF i = 1 THEN PoolA ELSE IF i = 2 THEN PoolB ELSE PoolC

(* ---------------------------------------------------------------------------------- *)
(* header choices                                                                      *)
ME(k, v) == [key |-> k, v |-> v, nested |-> <<>>, sp |-> DefSp]
MEs(k, v, sp) == [key |-> k, v |-> v, nested |-> <<>>, sp |-> sp]
MN(k, n) == [key |-> k, v |-> None, nested |-> n, sp |-> DefSp]
NE(k, v) == [key |-> k, v |-> v, sp |-> DefSp]
MetaChoices ==
  { <<>>,
    <<ME("TYPE", "w")>>,
    <<ME("TYPE", "w"), ME("VERSION", "ver")>>,
    <<ME("TAGS", "l2"), ME("N", "int")>>,
    <<MN("NEST", <<NE("X", "int"), NE("Y", "flow")>>)>>,
    <<MN("NEST", <<NE("X", "two")>>), ME("TYPE", "w")>>,
    <<ME("TYPE", "w"), MN("NEST", <<NE("X", "t")>>)>>,
    <<MEs("TYPE", "two", [DefSp EXCEPT !.alt = 2]), MEs("VERSION", "ver", [DefSp EXCEPT !.alt = 2, !.post = 1])>>,
    <<MEs("FLOW", "flow", [DefSp EXCEPT !.alt = 2]), ME("L", "l3")>> }

(* HeaderMode "metavals": every value of PoolC as a META field and as a nested META field, in each of its spellings *)
MetaValChoices ==
  UNION {UNION {{<<ME("TYPE", "w"), MEs("K", v, [DefSp EXCEPT !.alt = a])>>,
                  <<MN("NEST", <<[key |-> "X", v |-> v, sp |-> [DefSp EXCEPT !.alt = a]]>>)>>} : a \in 1..NSpell(v)}
           : v \in PoolC \ ZoneIds}
Headers ==
  IF HeaderMode = "plain"
  THEN {[env |-> "DOC", sent |-> None, fm |-> None, meta |-> <<>>, sep |-> FALSE]}
  ELSE IF HeaderMode = "metavals"
  THEN {[env |-> "DOC", sent |-> None, fm |-> None, meta |-> m, sep |-> p] : m \in MetaValChoices, p \in BOOLEAN}
  ELSE {[env |-> e, sent |-> s, fm |-> f, meta |-> m, sep |-> p] :
          e \in {"DOC", "INFERRED", "my_doc"}, s \in {None, "5.1.0"}, f \in {None, "fm1", "fm3"}, m \in MetaChoices, p \in BOOLEAN}
HeaderPlain(d) == d.env = "DOC" /\ d.sent = None /\ d.fm = None /\ d.meta = <<>> /\ ~d.sep
HeaderFeatures(d) == (IF d.env # "DOC" THEN 1 ELSE 0) + (IF d.sent # None THEN 1 ELSE 0) + (IF d.fm # None THEN 1 ELSE 0)
                   + (IF d.meta # <<>> THEN 1 ELSE 0) + (IF d.sep THEN 1 ELSE 0)

GChoices(e) == {[ind |-> i, envOmit |-> eo, endOmit |-> no, final |-> fi] :
                  i \in (IF "ind" \in Knobs THEN {1, 2, 3, 4} ELSE {2}),
                  eo \in (IF e = "INFERRED" /\ "envOmit" \in Knobs THEN BOOLEAN ELSE {FALSE}),
                  no \in (IF "endOmit" \in Knobs THEN BOOLEAN ELSE {FALSE}),
                  fi \in (IF "final" \in Knobs THEN {0, 1, 2} ELSE {1})}

RECURSIVE SumDev(_, _)
SumDev(body, i) == IF i > Len(body) THEN 0 ELSE DevSp(body[i].sp) + SumDev(body, i + 1)
Dev(d) == DevG(d.g) + SumDev(d.body, 1)

Init == \E h \in Headers : \E g \in GChoices(h.env) :
          /\ DevG(g) <= MaxDev
          /\ HeaderFeatures(h) <= 3
          /\ doc = [env |-> h.env, sent |-> h.sent, fm |-> h.fm, meta |-> h.meta, sep |-> h.sep, body |-> <<>>, g |-> g]

(* ---------------------------------------------------------------------------------- *)
(* items                                                                               *)
MaxDepthAfter(body) ==
  IF body = <<>> THEN 0
  ELSE LET last == body[Len(body)] IN IF IsContainer(last) THEN last.d + 1 ELSE last.d

(* kind of the parent of a new item at depth d (the last item at depth d-1) *)
RECURSIVE ParentKindFrom(_, _, _)
ParentKindFrom(body, i, d) ==
  IF d = 0 THEN "root" ELSE IF i = 0 THEN "none"
  ELSE IF body[i].d = d - 1 /\ body[i].k # "comment" THEN body[i].k ELSE ParentKindFrom(body, i - 1, d)
ParentKind(body, d) == ParentKindFrom(body, Len(body), d)

K(name, dom) == IF name \in Knobs THEN dom ELSE {CHOOSE x \in dom : \A y \in dom : x <= y}   \* knob off => its default (least) value
SpChoices(nalt, budget, assignLike, opMax, cindOK) ==
  {sp \in [alt : K("alt", 1..nalt), pre : (IF assignLike THEN K("pre", {0, 1}) ELSE {0}),
           post : (IF assignLike THEN K("post", {0, 1}) ELSE {0}), blank : K("blank", {0, 1, 2}), trsp : K("trsp", {0, 1}),
           op : K("op", 0..opMax), cind : (IF cindOK THEN K("cind", {0, 1}) ELSE {0})] : DevSp(sp) <= budget}

Item(d, k, key, v, tgt, sid, ann, trail, sp) ==
  [d |-> d, k |-> k, key |-> key, v |-> v, tgt |-> tgt, sid |-> sid, ann |-> ann, trail |-> trail, sp |-> sp]

SingleLine(v, alt) == Len(Spell(v)[alt]) = 1

AssignItems(d, n, budget) ==
  {Item(d, "assign", key, v, None, None, None, tr, sp) :
     key \in KeysFor(n) \cup (IF "filterkeys" \in Feat /\ n = 1 THEN FilterKeys ELSE {}), v \in PoolFor(n),
     tr \in (IF "trail" \in Feat THEN {None, "c1"} \cup (IF "c3" \in Feat THEN {"c3"} ELSE {}) ELSE {None}),
     sp \in UNION {SpChoices(NSpell(w), budget, TRUE, 0, FALSE) : w \in PoolFor(n)}}
AssignOK(it) == /\ it.sp.alt <= NSpell(it.v)
                /\ (it.trail # None => SingleLine(it.v, it.sp.alt))
                /\ (it.sp.trsp = 1 => SingleLine(it.v, it.sp.alt))

ZoneChildItems(d, budget) ==
  IF "zonechild" \in Feat
  THEN {Item(d, "assign", "", v, None, None, None, None, sp) : v \in (ZoneIds \cap (PoolA \cup PoolB \cup PoolC)),
                                                                  sp \in {s \in SpChoices(1, budget, FALSE, 0, FALSE) : s.trsp = 0}}
  ELSE {}

BlockItems(d, budget) ==
  IF "block" \in Feat
  THEN {Item(d, "block", key, None, tgt, None, None, None, sp) :
          key \in {"BLK"}, tgt \in (IF "target" \in Feat THEN {None, "T"} ELSE {None}),
          sp \in SpChoices(1, budget, FALSE, 3, FALSE)}
  ELSE {}
BlockOK(it) == it.tgt = None => it.sp.op = 0

SectionItems(d, budget) ==
  IF "section" \in Feat
  THEN {Item(d, "section", "NAME", None, None, sid, ann, None, sp) :
          sid \in {"1", "2b", "CTX"}, ann \in (IF "annot" \in Feat THEN {None, "a1", "a2"} ELSE {None}),
          sp \in SpChoices(1, budget, FALSE, 1, FALSE)}
  ELSE {}

CommentItems(d, budget) ==
  IF "comment" \in Feat
  THEN {Item(d, "comment", c, None, None, None, None, None, sp) :
          c \in {"c1", "c2"} \cup (IF "c3" \in Feat THEN {"c3"} ELSE {}), sp \in {s \in SpChoices(1, budget, FALSE, 1, "cind" \in Feat) : s.trsp = 0}}
       \cup (IF "hoist" \in Feat /\ d = 0 /\ doc.body = <<>> /\ ~doc.g.envOmit /\ budget >= 1      \* written above the envelope line
             THEN {Item(0, "comment", "c1", None, None, None, None, None, [DefSp EXCEPT !.cind = 2])} ELSE {})
  ELSE {}

AddItem ==
  /\ Len(doc.body) < MaxItems
  /\ (HeaderPlain(doc) \/ Len(doc.body) < HeaderMaxBody)
  /\ LET n == Len(doc.body) + 1
         budget == MaxDev - Dev(doc)
     IN \E d \in 0..(IF MaxDepthAfter(doc.body) < MaxDepth THEN MaxDepthAfter(doc.body) ELSE MaxDepth) :
        \E it \in {x \in AssignItems(d, n, budget) : AssignOK(x)}
                  \cup (IF d >= 1 /\ ParentKind(doc.body, d) = "block" THEN ZoneChildItems(d, budget) ELSE {})
                  \cup {x \in BlockItems(d, budget) : BlockOK(x)}
                  \cup SectionItems(d, budget) \cup CommentItems(d, budget) :
          doc' = [doc EXCEPT !.body = Append(doc.body, it)]

Next == AddItem

(* ---------------------------------------------------------------------------------- *)
(* what is handed to the harness: the document, its rendering and the receipts it owes  *)
AllDefault(d) == Dev(d) = 0 /\ \A i \in DOMAIN d.meta : d.meta[i].sp = DefSp /\ \A j \in DOMAIN d.meta[i].nested : d.meta[i].nested[j].sp = DefSp
EmitCase == PrintT(ToJson([doc |-> doc, lines |-> Render(doc), receipts |-> Receipts(Render(doc)),
                           abs |-> AbsDoc(doc), dev |-> Dev(doc)]))

(* in-model consistency between independently written parts of the specification *)
BodyWellFormed == WellFormed(doc.body)
PlainIsQuiet == AllDefault(doc) => Receipts(Render(doc)) = {}
BudgetRespected == Dev(doc) <= MaxDev
=============================================================================
