---------------------------- MODULE CasRegister ----------------------------
(* C17 (a) - base_hash as a compare-and-swap register, sequential histories.               *)
(* Generator: all histories of up to MaxLen operations over Ops, from an absent or present  *)
(* file.  Register: the file is absent or holds a version; a call carrying base_hash may    *)
(* change it only if the content present at that moment hashes to base_hash.                *)
EXTENDS Naturals, Sequences, TLC, Json

CONSTANTS MaxLen, Kinds, Bases
VARIABLE h       \* [init |-> "absent" | "present", ops |-> Seq([kind, base])]

(* kinds: content | changes | normalize : writes;  dry : corrections_only content call;       *)
(*        bad : unparseable content;  ext : another program rewrites the file                 *)
(* bases: none | current (hash of what the file holds when the call is made) | stale (hash of  *)
(*        an older content) | future (hash of the content this very call would install)       *)
(*        ext_empty : another program truncates the file to zero bytes (it still exists)       *)
External == {"ext", "ext_empty"}
OpsOf == {[kind |-> k, base |-> b] : k \in Kinds \ External, b \in Bases} \cup {[kind |-> k, base |-> "none"] : k \in Kinds \cap External}

Init == \E i \in {"absent", "present"} : h = [init |-> i, ops |-> <<>>]
Extend == Len(h.ops) < MaxLen /\ \E o \in OpsOf : h' = [h EXCEPT !.ops = Append(@, o)]
Next == Extend
EmitCase == IF h.ops # <<>> THEN PrintT(ToJson(h)) ELSE TRUE

(* ---------------------------------------------------------------------------------- *)
(* the register: st = [exists, canon]; canon = the file holds canonical text            *)
St0(init) == [exists |-> init = "present", canon |-> FALSE]
CasPasses(st, o) == ~st.exists \/ o.base \in {"none", "current"}        \* documented: base_hash only binds an existing file
Expected(st, o) ==      \* [status, code, st']   code "-" = any
  CASE o.kind \in External -> [status |-> "ext", code |-> "-", st |-> [exists |-> TRUE, canon |-> FALSE]]
    [] o.kind \in {"changes", "normalize"} /\ ~st.exists -> [status |-> "error", code |-> "E_FILE", st |-> st]
    [] o.kind = "bad" -> [status |-> "error", code |-> "-", st |-> st]
    [] ~CasPasses(st, o) -> [status |-> "error", code |-> "E_HASH", st |-> st]
    [] o.kind = "dry" -> [status |-> "ok", code |-> "-", st |-> st]
    [] OTHER -> [status |-> "ok", code |-> "-", st |-> [exists |-> TRUE, canon |-> TRUE]]

(* may the bytes on disk differ after the call?  only a successful real write may change anything *)
MayChange(st, o) == Expected(st, o).status = "ok" /\ o.kind # "dry"
MustChange(st, o) == MayChange(st, o) /\ (o.kind \in {"content", "changes"} \/ ~st.canon \/ ~st.exists)
=============================================================================
