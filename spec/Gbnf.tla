---------------------------- MODULE Gbnf ----------------------------
(* C12 / C13 - GBNF (llama.cpp grammar format).                                                *)
(* (1) generator of schemas whose field names cover every sanitisation case and whose chains     *)
(*     cover every constraint kind and a pool of REGEX patterns;                                 *)
(* (2) WellFormed(tokens): token-level syntax of llama.cpp's grammar parser - rule list, root     *)
(*     defined, every reference defined, no rule twice, no unterminated literal / class, no empty  *)
(*     alternative or group, balanced groups, a repetition operator only after an operand, rule     *)
(*     names over [a-zA-Z0-9-] only;                                                             *)
(* (3) Lang(node, ...): the strings derivable from a rule body given as a tree (C13).             *)
EXTENDS Naturals, Sequences, FiniteSets, TLC, Json

CONSTANTS NamePool, ChainPool, PairNames, PairChains     \* PairChains: chains given to the second field of a two-field schema
VARIABLE gs        \* [fields |-> Seq([name, chain]), route, envelope]

Routes == {"FIELDS", "CONTRACT"}
Init == gs = [fields |-> <<>>, route |-> "-", envelope |-> FALSE]
One == /\ gs.route = "-"
       /\ \E n \in NamePool, c \in ChainPool, r \in Routes, e \in BOOLEAN :
            gs' = [fields |-> <<[name |-> n, chain |-> c]>>, route |-> r, envelope |-> e]
Two == /\ gs.route = "-"
       /\ \E a \in PairNames, b \in PairNames, r \in Routes, c \in PairChains \cup {"OPT"}, d \in {"REQ"} \cup PairChains :
            a # b /\ (c = "OPT" \/ d = "REQ" \/ c # d)
            /\ gs' = [fields |-> <<[name |-> a, chain |-> d], [name |-> b, chain |-> c]>>, route |-> r, envelope |-> TRUE]
Next == One \/ Two
EmitCase == IF gs.route # "-" THEN PrintT(ToJson(gs)) ELSE TRUE

(* ---------------------------------------------------------------------------------- *)
(* tokens: [t, v]  t in NAME | DEF | LIT | CLASS | LP | RP | PIPE | STAR | PLUS | QM | REP | NL | ULIT | UCLASS | BAD *)
(*         v = the name for NAME, TRUE/FALSE "valid name characters" is carried in ok       *)
Operand(t) == t \in {"NAME", "LIT", "CLASS", "RP", "STAR", "PLUS", "QM", "REP"}      \* something a repetition operator may follow
Quant(t) == t \in {"STAR", "PLUS", "QM", "REP"}

(* rule starts: a NAME that is followed by DEF *)
DefIdx(tk) == {i \in DOMAIN tk : tk[i].t = "NAME" /\ i < Len(tk) /\ tk[i + 1].t = "DEF"}
Defs(tk) == {tk[i].v : i \in DefIdx(tk)}
Refs(tk) == {tk[i].v : i \in {j \in DOMAIN tk : tk[j].t = "NAME" /\ ~(j < Len(tk) /\ tk[j + 1].t = "DEF")}}
Dups(tk) == {n \in Defs(tk) : Cardinality({i \in DefIdx(tk) : tk[i].v = n}) > 1}

(* walk the tokens: depth of open groups per rule, previous significant token *)
RECURSIVE Syn(_, _, _, _)
Syn(tk, i, depth, prev) ==
  IF i > Len(tk) THEN (IF depth > 0 THEN {"BalancedGroups"} ELSE {}) \cup (IF prev \in {"PIPE", "DEF"} THEN {"NoEmptyAlternative"} ELSE {})
  ELSE LET x == tk[i].t IN
    IF x = "NL" THEN (IF depth > 0 THEN Syn(tk, i + 1, depth, prev)           \* a group may span lines
                      ELSE (IF prev \in {"PIPE", "DEF"} THEN {"NoEmptyAlternative"} ELSE {}) \cup Syn(tk, i + 1, 0, "NL"))
    ELSE (IF x \in {"ULIT", "UCLASS"} THEN {"TerminatedLiteralsAndClasses"} ELSE {})
         \cup (IF x = "BAD" THEN {"KnownTokensOnly"} ELSE {})
         \cup (IF x = "NAME" /\ ~tk[i].ok THEN {"RuleNameChars"} ELSE {})
         \cup (IF x = "PIPE" /\ prev \in {"LP", "PIPE", "DEF"} THEN {"NoEmptyAlternative"} ELSE {})
         \cup (IF x = "RP" /\ prev \in {"LP", "PIPE"} THEN {"NoEmptyAlternative"} ELSE {})
         \cup (IF x = "RP" /\ depth = 0 THEN {"BalancedGroups"} ELSE {})
         \cup (IF Quant(x) /\ ~Operand(prev) THEN {"RepetitionNeedsOperand"} ELSE {})
         \cup (IF x = "DEF" /\ prev # "NAME" THEN {"RuleListSyntax"} ELSE {})
         \cup (IF prev = "NL" /\ ~(x = "NAME" /\ i < Len(tk) /\ tk[i + 1].t = "DEF") THEN {"RuleListSyntax"} ELSE {})
         \cup Syn(tk, i + 1, IF x = "LP" THEN depth + 1 ELSE IF x = "RP" /\ depth > 0 THEN depth - 1 ELSE depth, x)

Violations(tk) ==
     Syn(tk, 1, 0, "NL")
  \cup (IF "root" \in Defs(tk) THEN {} ELSE {"RootDefined"})
  \cup (IF Refs(tk) \subseteq Defs(tk) THEN {} ELSE {"EveryReferenceDefined"})
  \cup (IF Dups(tk) = {} THEN {} ELSE {"NoRuleDefinedTwice"})

(* ---------------------------------------------------------------------------------- *)
(* C13: strings derivable from a rule body tree.  node = [k, s, xs, lo, hi, long]                  *)
(*   lit : s = characters ; cls : s = the representative characters chosen for the class          *)
(*   seq / alt : xs = children ; rep : xs = <<child>>, lo..hi repetitions (hi capped by the         *)
(*   harness when the operator is unbounded) and, when long > 0, the same child string repeated    *)
(*   long times (boundary sample of an unbounded repetition)                                        *)
Concat(A, B) == {a \o b : a \in A, b \in B}
RECURSIVE Lang(_), Power(_, _), Times(_, _)
Power(S, n) == IF n = 0 THEN {<<>>} ELSE Concat(S, Power(S, n - 1))
Times(w, n) == IF n = 0 THEN <<>> ELSE w \o Times(w, n - 1)
RECURSIVE SeqLang(_, _), AltLang(_, _)
SeqLang(xs, i) == IF i > Len(xs) THEN {<<>>} ELSE Concat(Lang(xs[i]), SeqLang(xs, i + 1))
AltLang(xs, i) == IF i > Len(xs) THEN {} ELSE Lang(xs[i]) \cup AltLang(xs, i + 1)
Lang(n) ==
  CASE n.k = "lit" -> {n.s}
    [] n.k = "cls" -> {<<n.s[j]>> : j \in DOMAIN n.s}
    [] n.k = "seq" -> SeqLang(n.xs, 1)
    [] n.k = "alt" -> AltLang(n.xs, 1)
    [] OTHER (* rep *) -> UNION {Power(Lang(n.xs[1]), m) : m \in n.lo..n.hi}
                          \cup (IF n.long > 0 THEN {Times(w, n.long) : w \in Lang(n.xs[1])} ELSE {})
=============================================================================
