---------------------------- MODULE Trace_Validity ----------------------------
(* Trace validation for C09: records of one group (one schema + one instance content, in every  *)
(* spelling, then the implementation's canonical text and the canonical text of that) are          *)
(* consecutive.  memo binds, per route and profile, the verdict of the first record of the group;  *)
(* every later record must repeat it (SameVerdict).  With fix off the canonical text returned must  *)
(* equal plain canonicalisation (ReadOnly) and a second call must answer the same (Stable).         *)
EXTENDS SchemaDocs, IOUtils
Trace == ndJsonDeserialize(IOEnv.TRACE_FILE)
VARIABLES l, gid, memo

Set(s) == {s[j] : j \in DOMAIN s}
VerdictOf(o) == [status |-> o.status, pairs |-> Set(o.pairs)]
Norm(c) == [fields |-> Set(c.fields), policy |-> c.policy, unknown |-> c.unknown, inst |-> c.inst]
Key(o) == o.route \o "/" \o o.profile

OneFails(c, o, m) ==
     (IF Key(o) \in DOMAIN m /\ m[Key(o)] # VerdictOf(o) THEN {"SameVerdict:" \o Key(o)} ELSE {})
  \cup (IF o.readonly THEN {} ELSE {"ReadOnly:" \o Key(o)})
  \cup (IF o.stable THEN {} ELSE {"Stable:" \o Key(o)})
  \cup (IF o.route \in {"octave_validate", "octave_write"} /\ o.profile \in {"STRICT", "STANDARD"} /\ o.status # ExpectedStatus(Norm(c))
        THEN {"StatusAsSpecified:" \o Key(o)} ELSE {})
  \cup (IF o.route = "octave_validate" /\ o.profile \in {"LENIENT", "ULTRA"} /\ o.status # "VALIDATED"
        THEN {"StatusAsSpecified:" \o Key(o)} ELSE {})

FailsOf(r, m) == UNION {OneFails(r.case, r.obs[j], m) : j \in DOMAIN r.obs}
Judge(r, m) == LET f == FailsOf(r, m) IN IF f = {} THEN TRUE ELSE PrintT(ToJson([i |-> r.i, fails |-> f]))

Bind(r, m) == LET keys == {Key(r.obs[j]) : j \in DOMAIN r.obs} IN
              [k \in DOMAIN m \cup keys |-> IF k \in DOMAIN m THEN m[k]
                                           ELSE VerdictOf(r.obs[CHOOSE j \in DOMAIN r.obs : Key(r.obs[j]) = k])]
Empty == [k \in {} |-> 0]
TInit == l = 1 /\ gid = "" /\ memo = Empty
         /\ sd = [fields |-> {}, policy |-> "NONE", tgt |-> "field", inst |-> <<>>, unknown |-> FALSE, sp |-> DefSp, done |-> TRUE]
TNext == /\ l <= Len(Trace)
         /\ LET r == Trace[l]
                m == IF r.gid = gid THEN memo ELSE Empty
            IN /\ Judge(r, m) /\ gid' = r.gid /\ memo' = Bind(r, m)
         /\ l' = l + 1 /\ UNCHANGED sd
TAccepted == TLCGet("stats").diameter - 1 = Len(Trace)
=============================================================================
