---------------------------- MODULE Trace_NameSpace ----------------------------
EXTENDS NameSpace, IOUtils
Trace == ndJsonDeserialize(IOEnv.TRACE_FILE)
VARIABLE l
FrozenFails(o) == (IF o.resolved /\ ~o.digest_matches THEN {"FrozenDigest:" \o o.route} ELSE {})
             \cup (IF o.resolved /\ ~o.in_cache THEN {"FrozenInCache:" \o o.route} ELSE {})
             \cup (IF o.opened_elsewhere = 0 THEN {} ELSE {"FrozenInCache:opened:" \o o.route})
(* a link planted beside the target (under a name the write path was seen to reuse, or a conventional one) steers nothing outside *)
StagingFails(o) == (IF o.outside_changed THEN {"Confined:staging:" \o o.route} ELSE {})
              \cup (IF o.target_is_link THEN {"Confined:target_became_link:" \o o.route} ELSE {})
FailsOf(r) == UNION {IF r.kind = "name" THEN NameFails(r.obs[j]) ELSE IF r.kind = "staging" THEN StagingFails(r.obs[j]) ELSE FrozenFails(r.obs[j]) : j \in DOMAIN r.obs}
Judge(r) == LET f == FailsOf(r) IN IF f = {} THEN TRUE ELSE PrintT(ToJson([i |-> r.i, fails |-> f]))
TInit == l = 1 /\ nm = <<>>
TNext == l <= Len(Trace) /\ Judge(Trace[l]) /\ l' = l + 1 /\ UNCHANGED nm
TAccepted == TLCGet("stats").diameter - 1 = Len(Trace)
=============================================================================
