---------------------------- MODULE Trace_OneLoop ----------------------------
(* Trace validation for the one-loop stage: one record = one case of spec/OneLoop.tla served by the real   *)
(* WriteTool on one asyncio loop.  case.serial = the outcomes the specification allows (one per serial      *)
(* order); obs = [res (per call: ok | E_HASH | other text), final (per key: the value read back, "absent",  *)
(* "null")].                                                                                                *)
EXTENDS OneLoop, IOUtils
Trace == ndJsonDeserialize(IOEnv.TRACE_FILE)
VARIABLE l
SameRes(a, b) == \A i \in DOMAIN a : a[i] = b[i]
SameFinal(a, b) == \A k \in Keys : a[k] = b[k]
Fails(r) ==
  LET ok == \E j \in DOMAIN r.case.serial : SameRes(r.case.serial[j].res, r.obs.res) /\ SameFinal(r.case.serial[j].final, r.obs.final)
      okres == \E j \in DOMAIN r.case.serial : SameRes(r.case.serial[j].res, r.obs.res)
  IN IF ok THEN {} ELSE IF okres THEN {"OneLoopSerial:final"} ELSE {"OneLoopSerial:results"}
Judge(r) == LET f == Fails(r) IN IF f = {} THEN TRUE ELSE PrintT(ToJson([i |-> r.i, fails |-> f]))
TInit == l = 1 /\ case = [calls |-> <<>>, size |-> "small", done |-> FALSE]
TNext == l <= Len(Trace) /\ Judge(Trace[l]) /\ l' = l + 1 /\ UNCHANGED case
TAccepted == TLCGet("stats").diameter - 1 = Len(Trace)
=============================================================================
