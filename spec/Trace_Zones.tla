---------------------------- MODULE Trace_Zones ----------------------------
(* Trace validation for C05: one record = one zone case put through every pipeline; the   *)
(* specification recomputes the zones and the neighbouring nodes every pipeline must hand *)
(* back and names the failing clause per route.                                           *)
EXTENDS Zones, IOUtils

Trace == ndJsonDeserialize(IOEnv.TRACE_FILE)
VARIABLE l

ZoneOf(x) == [fence |-> x.fence, tag |-> x.tag, lines |-> x.lines]
RouteFails(c, o) ==
  IF ~o.ok THEN {"Accepted:" \o o.route}
  ELSE (IF [j \in DOMAIN o.zones |-> ZoneOf(o.zones[j])] = ExpectedZones(c.z) THEN {} ELSE {"ZonesPreserved:" \o o.route})
       \cup (IF o.route = "eject_json" \/ o.others = ExpectedOthers(c.z)      \* the JSON view has no depth vocabulary
             THEN {} ELSE {"Neighbours:" \o o.route})

FailsOf(r) == UNION {RouteFails(r.case, r.obs[j]) : j \in DOMAIN r.obs}
Judge(r) == LET f == FailsOf(r) IN IF f = {} THEN TRUE ELSE PrintT(ToJson([i |-> r.i, fails |-> f]))

TInit == l = 1 /\ z = [shape |-> "top", fence |-> 3, tag |-> "", ls |-> <<>>]
TNext == l <= Len(Trace) /\ Judge(Trace[l]) /\ l' = l + 1 /\ UNCHANGED z
TAccepted == TLCGet("stats").diameter - 1 = Len(Trace)
=============================================================================
