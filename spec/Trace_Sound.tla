---------------------------- MODULE Trace_Sound ----------------------------
(* C13, stage 3: every derived string, written FIELD::string, was read by the real reader and     *)
(* checked with the field's real chain and through octave_validate.                               *)
EXTENDS Naturals, Sequences, TLC, Json, IOUtils
Trace == ndJsonDeserialize(IOEnv.TRACE_FILE)
VARIABLE l
FailsOf(r) == (IF r.read_ok THEN {} ELSE {"ReaderAccepts"})
         \cup (IF r.read_ok /\ ~r.key_ok THEN {"ReadAsThatField"} ELSE {})
         \cup (IF r.read_ok /\ r.key_ok /\ ~r.chain_ok THEN {"ChainAccepts"} ELSE {})
         \cup (IF r.read_ok /\ r.key_ok /\ r.chain_ok /\ ~r.tool_ok THEN {"ValidatorAccepts"} ELSE {})
Judge(r) == LET f == FailsOf(r) IN IF f = {} THEN TRUE ELSE PrintT(ToJson([i |-> r.i, fails |-> f]))
TInit == l = 1
TNext == l <= Len(Trace) /\ Judge(Trace[l]) /\ l' = l + 1
TAccepted == TLCGet("stats").diameter - 1 = Len(Trace)
=============================================================================
