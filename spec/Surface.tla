---------------------------- MODULE Surface ----------------------------
(* How a document may be WRITTEN: Render(doc) turns content + spelling knobs into lines of *)
(* chunks; Receipts(lines) says which rewrite receipts a lenient reader owes for them;     *)
(* StrictViolations(text) is an independent line-level recogniser of the strict profile,   *)
(* run on text OBSERVED from the implementation.                                           *)
EXTENDS Content, FiniteSets, Integers

UniAtoms == {"U2192", "U2295", "U29FA", "U21CC", "U2227", "U2228", "U00A7", "U00E9", "U0301", "U1F600", "U0009"}
Markers  == {"@MW", "@TQ"}
ChunkLen(c) == IF c \in UniAtoms THEN 1 ELSE IF c \in Markers THEN 0 ELSE Len(c)

Pad(n) == [i \in 1..n |-> " "]

(* default (plainest) spelling knobs of an item / of a document *)
DefSp == [alt |-> 1, pre |-> 0, post |-> 0, blank |-> 0, trsp |-> 0, op |-> 0, cind |-> 0]
DefG  == [ind |-> 2, envOmit |-> FALSE, endOmit |-> FALSE, final |-> 1]

(* number of knobs that deviate from the plainest spelling *)
DevSp(sp) == (IF sp.alt # 1 THEN 1 ELSE 0) + (IF sp.pre # 0 THEN 1 ELSE 0) + (IF sp.post # 0 THEN 1 ELSE 0)
           + (IF sp.blank # 0 THEN 1 ELSE 0) + (IF sp.trsp # 0 THEN 1 ELSE 0) + (IF sp.op # 0 THEN 1 ELSE 0)
           + (IF sp.cind # 0 THEN 1 ELSE 0)
DevG(g) == (IF g.ind # 2 THEN 1 ELSE 0) + (IF g.envOmit THEN 1 ELSE 0) + (IF g.endOmit THEN 1 ELSE 0)
         + (IF g.final # 1 THEN 1 ELSE 0)

(* ---------------------------------------------------------------------------------- *)
(* rendering                                                                           *)
TrailChunks(it) == IF it.trail = None THEN <<>> ELSE <<" ", "//", " ", CommentText(it.trail)>>

(* blank line before an entry: 0 none | 1 an empty line | 2 a whitespace-only line (as editors leave them): as wide as the   *)
(* entry's own indentation, two spaces at column 0                                                                        *)
BlankLines(b, pad) == IF b = 0 THEN <<>> ELSE IF b = 1 THEN << <<>> >> ELSE << (IF pad = <<>> THEN Pad(2) ELSE pad) >>

(* lines of an assignment-like entry (body assignment, META field) at indentation `pad` *)
AssignLines(pad, key, v, sp, trail) ==
  LET spell == Spell(v)[sp.alt]
      head  == pad \o <<key>> \o Pad(sp.pre) \o <<"::">> \o Pad(sp.post) \o spell[1].c
                   \o Pad(2 * sp.trsp) \o trail
      rest  == [j \in 1..(Len(spell) - 1) |->
                  IF spell[j + 1].k = "raw" THEN spell[j + 1].c ELSE pad \o spell[j + 1].c]
  IN BlankLines(sp.blank, pad)
     \o (IF key = "" THEN rest ELSE <<head>> \o rest)

TargetChunks(it) ==
  IF it.tgt = None THEN <<>>
  ELSE CASE it.sp.op = 0 -> <<"[", "U2192", "U00A7", it.tgt, "]">>
         [] it.sp.op = 1 -> <<"[", "->", "U00A7", it.tgt, "]">>
         [] it.sp.op = 2 -> <<"[", "->", it.tgt, "]">>
         [] OTHER        -> <<"[", "->", "#", it.tgt, "]">>

ItemLines(ind, it) ==
  LET pad == Pad(ind * it.d) IN
  CASE it.k = "assign"  -> AssignLines(pad, it.key, it.v, it.sp, TrailChunks(it))
    [] it.k = "block"   -> BlankLines(it.sp.blank, pad)
                           \o << pad \o <<it.key>> \o TargetChunks(it) \o <<":">> \o Pad(2 * it.sp.trsp) >>
    [] it.k = "section" -> BlankLines(it.sp.blank, pad)
                           \o << pad \o <<(IF it.sp.op = 0 THEN "U00A7" ELSE "#"), it.sid, "::", it.key>>
                                  \o (IF it.ann = None THEN <<>> ELSE <<"[", AnnText(it.ann), "]">>)
                                  \o Pad(2 * it.sp.trsp) >>
    [] OTHER (* comment *) ->
         BlankLines(it.sp.blank, pad)
         \o << (IF it.sp.cind = 1 THEN <<>> ELSE pad)
               \o (IF it.sp.op = 0 THEN <<"//", " ", CommentText(it.key)>> ELSE <<"//", CommentText(it.key)>>) >>

RECURSIVE BodyLines(_, _, _)
BodyLines(ind, body, i) ==
  IF i > Len(body) THEN <<>> ELSE ItemLines(ind, body[i]) \o BodyLines(ind, body, i + 1)

RECURSIVE NestedLines(_, _, _)
NestedLines(ind, nested, j) ==
  IF j > Len(nested) THEN <<>>
  ELSE AssignLines(Pad(2 * ind), nested[j].key, nested[j].v, nested[j].sp, <<>>) \o NestedLines(ind, nested, j + 1)

RECURSIVE MetaLines(_, _, _)
MetaLines(ind, meta, i) ==
  IF i > Len(meta) THEN <<>>
  ELSE (IF meta[i].v # None
        THEN AssignLines(Pad(ind), meta[i].key, meta[i].v, meta[i].sp, <<>>)
        ELSE << Pad(ind) \o <<meta[i].key, ":">> >> \o NestedLines(ind, meta[i].nested, 1))
       \o MetaLines(ind, meta, i + 1)

(* a comment written ABOVE the envelope line (cind = 2 on a comment that is the first body item): the same content as the   *)
(* comment written under the envelope - readers attach it to the first node                                               *)
Hoisted(doc) == doc.body # <<>> /\ doc.body[1].k = "comment" /\ doc.body[1].sp.cind = 2
Render(doc) ==
  LET g == doc.g IN
     (IF doc.fm = None THEN <<>>
      ELSE << <<"---">> >> \o [j \in 1..Len(FmLines(doc.fm)) |-> <<FmLines(doc.fm)[j]>>] \o << <<"---">>, <<>> >>)
  \o (IF doc.sent = None THEN <<>> ELSE << <<"OCTAVE::", doc.sent>> >>)
  \o (IF Hoisted(doc) THEN ItemLines(g.ind, doc.body[1]) ELSE <<>>)
  \o (IF g.envOmit THEN <<>> ELSE << <<"===", doc.env, "===">> >>)
  \o (IF doc.meta = <<>> THEN <<>> ELSE << <<"META", ":">> >> \o MetaLines(g.ind, doc.meta, 1))
  \o (IF doc.sep THEN << <<"---">> >> ELSE <<>>)
  \o BodyLines(g.ind, doc.body, IF Hoisted(doc) THEN 2 ELSE 1)
  \o (IF g.endOmit THEN <<>> ELSE << <<"===END===">> >>)

(* ---------------------------------------------------------------------------------- *)
(* receipts owed by a lenient reader for rendered lines (property C07)                  *)
AliasNorm(c) ==
  CASE c = "->" -> "U2192" [] c = "<->" -> "U21CC" [] c = "+" -> "U2295" [] c = "~" -> "U29FA"
    [] c = "vs" -> "U21CC" [] c = "|" -> "U2228" [] c = "&" -> "U2227" [] c = "#" -> "U00A7"
    [] OTHER -> "-"

RECURSIVE LineReceipts(_, _, _, _)
LineReceipts(line, j, col, ln) ==
  IF j > Len(line) THEN {}
  ELSE LET c == line[j] IN
       (IF AliasNorm(c) # "-" THEN {[kind |-> "norm", orig |-> c, norm |-> AliasNorm(c), line |-> ln, col |-> col]}
        ELSE IF c = "@TQ" THEN {[kind |-> "tq", orig |-> "\"\"\"", norm |-> "-", line |-> ln, col |-> col]}
        ELSE IF c = "@MW" THEN {[kind |-> "mw", orig |-> "-", norm |-> "-", line |-> ln, col |-> col]}
        ELSE {})
       \cup LineReceipts(line, j + 1, col + ChunkLen(c), ln)

(* zone content and frontmatter lines are single opaque chunks, comments likewise, so an alias *)
(* chunk can only occur at a real operator site                                                *)
Receipts(lines) == UNION {LineReceipts(lines[n], 1, 1, n) : n \in DOMAIN lines}

(* ---------------------------------------------------------------------------------- *)
(* strict-profile recogniser over OBSERVED text: lines = Seq(Seq(one-character atom))   *)
WordChars == {"a","b","c","d","e","f","g","h","i","j","k","l","m","n","o","p","q","r","s","t","u","v","w","x","y","z",
              "A","B","C","D","E","F","G","H","I","J","K","L","M","N","O","P","Q","R","S","T","U","V","W","X","Y","Z",
              "0","1","2","3","4","5","6","7","8","9","_"}
DigitChars == {"0","1","2","3","4","5","6","7","8","9"}

RECURSIVE LeadSpacesFrom(_, _)
LeadSpacesFrom(l, i) == IF i <= Len(l) /\ l[i] = " " THEN LeadSpacesFrom(l, i + 1) ELSE i - 1
LeadSpaces(l) == LeadSpacesFrom(l, 1)

RECURSIVE TicksFrom(_, _)
TicksFrom(l, i) == IF i <= Len(l) /\ l[i] = "`" THEN 1 + TicksFrom(l, i + 1) ELSE 0
FenceTicks(l) == TicksFrom(l, LeadSpaces(l) + 1)          \* number of backticks after the indentation
IsFenceOpen(l) == FenceTicks(l) >= 3
IsFenceClose(l, n) == FenceTicks(l) = n /\ LeadSpaces(l) + n = Len(l)

Is(l, i, c) == i >= 1 /\ i <= Len(l) /\ l[i] = c
IsWord(l, i) == i >= 1 /\ i <= Len(l) /\ l[i] \in WordChars

(* scan one structural line; st in code|str|esc ; returns the set of violated clause names *)
RECURSIVE ScanLine(_, _, _)
ScanLine(l, i, st) ==
  IF i > Len(l) THEN {}
  ELSE IF st = "esc" THEN ScanLine(l, i + 1, "str")
  ELSE IF st = "str" THEN ScanLine(l, i + 1, IF l[i] = "\\" THEN "esc" ELSE IF l[i] = "\"" THEN "code" ELSE "str")
  ELSE IF l[i] = "\"" THEN ScanLine(l, i + 1, "str")
  ELSE IF l[i] = "/" /\ Is(l, i + 1, "/") THEN {}                               \* comment to end of line
  ELSE (IF l[i] \in {"|", "&", "~", "#"} THEN {"UnicodeOperatorsOnly"} ELSE {})
       \cup (IF l[i] = "+" /\ ~((Is(l, i - 1, "e") \/ Is(l, i - 1, "E")) /\ i < Len(l) /\ l[i + 1] \in DigitChars)
             THEN {"UnicodeOperatorsOnly"} ELSE {})
       \cup (IF l[i] = "-" /\ Is(l, i + 1, ">") THEN {"UnicodeOperatorsOnly"} ELSE {})
       \cup (IF l[i] = "v" /\ Is(l, i + 1, "s") /\ ~IsWord(l, i - 1) /\ ~IsWord(l, i + 2)
                /\ ~Is(l, i - 1, ".") /\ ~Is(l, i - 1, "-") /\ ~Is(l, i - 1, "/")
             THEN {"UnicodeOperatorsOnly"} ELSE {})
       \cup (IF l[i] = ":" /\ Is(l, i + 1, ":") /\ (Is(l, i - 1, " ") \/ Is(l, i + 2, " "))
             THEN {"NoSpaceAroundAssign"} ELSE {})
       \cup ScanLine(l, i + 1, "code")

StructLine(l, prevDepth) ==
     (IF \E i \in DOMAIN l : l[i] = "U0009" THEN {"NoTabs"} ELSE {})
  \cup (IF l # <<>> /\ l[Len(l)] = " " THEN {"NoTrailingWhitespace"} ELSE {})
  \cup (IF l # <<>> /\ LeadSpaces(l) % 2 = 1 THEN {"TwoSpaceIndent"} ELSE {})
  \cup (IF l # <<>> /\ LeadSpaces(l) \div 2 > prevDepth + 1 THEN {"IndentStep"} ELSE {})
  \cup ScanLine(l, 1, "code")

(* unclosed brackets contributed by one structural line (outside strings and comments) *)
RECURSIVE BracketDelta(_, _, _)
BracketDelta(l, i, st) ==
  IF i > Len(l) THEN 0
  ELSE IF st = "esc" THEN BracketDelta(l, i + 1, "str")
  ELSE IF st = "str" THEN BracketDelta(l, i + 1, IF l[i] = "\\" THEN "esc" ELSE IF l[i] = "\"" THEN "code" ELSE "str")
  ELSE IF l[i] = "\"" THEN BracketDelta(l, i + 1, "str")
  ELSE IF l[i] = "/" /\ Is(l, i + 1, "/") THEN 0
  ELSE (IF l[i] = "[" THEN 1 ELSE IF l[i] = "]" THEN -1 ELSE 0) + BracketDelta(l, i + 1, "code")

(* inside a multi-line list every line is indented two spaces per open bracket beyond the line *)
(* that opened the list; a line that starts with ] closes at the indentation of its opener     *)
BracketViolations(l, open, lbase) ==
  LET lead == LeadSpaces(l)
      startsClose == lead < Len(l) /\ l[lead + 1] = "]"
      expect == IF startsClose THEN lbase + 2 * (open - 1) ELSE lbase + 2 * open
  IN IF open > 0 /\ l # <<>> /\ lead # expect THEN {"BracketIndent"} ELSE {}

(* walk the lines; mode = "fm0" (expecting possible frontmatter) | "fm" | "code" | "zone";      *)
(* open/lbase = number of unclosed list brackets and the indentation of the line that opened them *)
RECURSIVE Walk(_, _, _, _, _, _, _)
Walk(ls, i, mode, fence, prevDepth, open, lbase) ==
  IF i > Len(ls) THEN (IF mode = "zone" THEN {"ZoneClosed"} ELSE {})
  ELSE LET l == ls[i] IN
    IF mode = "fm" THEN Walk(ls, i + 1, IF l = <<"-", "-", "-">> THEN "code" ELSE "fm", 0, 0, 0, 0)
    ELSE IF mode = "zone"
         THEN IF IsFenceClose(l, fence)
              THEN StructLine(l, prevDepth + 1) \cup Walk(ls, i + 1, "code", 0, prevDepth, 0, 0)
              ELSE Walk(ls, i + 1, "zone", fence, prevDepth, 0, 0)                      \* content: exempt
    ELSE IF mode = "fm0" /\ l = <<"-", "-", "-">> THEN Walk(ls, i + 1, "fm", 0, 0, 0, 0)
    ELSE IF open = 0 /\ IsFenceOpen(l)
         THEN ((StructLine(l, prevDepth + 1) \ {"UnicodeOperatorsOnly", "NoSpaceAroundAssign"})
               \cup Walk(ls, i + 1, "zone", FenceTicks(l), prevDepth, 0, 0))
    ELSE LET d == BracketDelta(l, 1, "code")
             open2 == IF open + d < 0 THEN 0 ELSE open + d
         IN StructLine(l, prevDepth) \cup BracketViolations(l, open, lbase)
            \cup Walk(ls, i + 1, "code", 0, IF l = <<>> THEN prevDepth ELSE LeadSpaces(l) \div 2,
                      open2, IF open = 0 THEN LeadSpaces(l) ELSE lbase)

IsEnvelopeStart(l) == Len(l) >= 7 /\ l[1] = "=" /\ l[2] = "=" /\ l[3] = "=" /\ l[Len(l)] = "=" /\ l[Len(l) - 1] = "="
                      /\ l[Len(l) - 2] = "=" /\ \A j \in 4..(Len(l) - 3) : l[j] \in WordChars
EndLine == <<"=", "=", "=", "E", "N", "D", "=", "=", "=">>
IsSentinel(l) == Len(l) > 8 /\ SubSeq(l, 1, 8) = <<"O", "C", "T", "A", "V", "E", ":", ":">>

(* index of the first line after frontmatter (if any) and blank lines *)
RECURSIVE SkipFm(_, _, _)
SkipFm(ls, i, infm) ==
  IF i > Len(ls) THEN i
  ELSE IF infm THEN (IF ls[i] = <<"-", "-", "-">> THEN SkipFm(ls, i + 1, FALSE) ELSE SkipFm(ls, i + 1, TRUE))
  ELSE IF ls[i] = <<>> THEN SkipFm(ls, i + 1, FALSE)
  ELSE i
FirstCode(ls) == IF ls # <<>> /\ ls[1] = <<"-", "-", "-">> THEN SkipFm(ls, 2, TRUE) ELSE SkipFm(ls, 1, FALSE)

EnvelopeViolations(ls) ==
  LET f == FirstCode(ls)
      e == IF f <= Len(ls) /\ IsSentinel(ls[f]) THEN f + 1 ELSE f
  IN (IF e <= Len(ls) /\ IsEnvelopeStart(ls[e]) /\ ls[e] # EndLine THEN {} ELSE {"ExplicitEnvelope"})
     \cup (IF ls # <<>> /\ ls[Len(ls)] = EndLine THEN {} ELSE {"ExplicitEnd"})

(* text = [lines, nl]: the observed text split at newlines, and the number of newline characters at its end *)
StrictViolations(text) ==
  Walk(text.lines, 1, "fm0", 0, 0, 0, 0) \cup EnvelopeViolations(text.lines)
  \cup (IF text.nl = 1 THEN {} ELSE {"SingleFinalNewline"})
=============================================================================
