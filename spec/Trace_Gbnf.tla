---------------------------- MODULE Trace_Gbnf ----------------------------
(* Trace validation for C12: one record = one generated schema compiled through every exit;   *)
(* each returned grammar arrives as its GBNF token sequence; the specification parses it.       *)
EXTENDS Gbnf, IOUtils
Trace == ndJsonDeserialize(IOEnv.TRACE_FILE)
VARIABLE l
FailsOf(r) == UNION {{v \o ":" \o r.obs[j].exit : v \in Violations(r.obs[j].tokens)} : j \in DOMAIN r.obs}
Judge(r) == LET f == FailsOf(r) IN IF f = {} THEN TRUE ELSE PrintT(ToJson([i |-> r.i, fails |-> f]))
TInit == l = 1 /\ gs = [fields |-> <<>>, route |-> "-", envelope |-> FALSE]
TNext == l <= Len(Trace) /\ Judge(Trace[l]) /\ l' = l + 1 /\ UNCHANGED gs
TAccepted == TLCGet("stats").diameter - 1 = Len(Trace)
=============================================================================
