---------------------------- MODULE OneLoop ----------------------------
(* Calls served by ONE event loop (C17 "execute() has no await points, so calls served by one   *)
(* event loop are serial"; C18 "changes touch only named keys"; C06 "results depend only on the  *)
(* input").  The MCP server awaits the execute coroutine of the tool on one asyncio loop and      *)
(* several requests may be in flight at once.  The design's answer to that is that a call never  *)
(* suspends between reading the file and installing the new text: whatever the loop does with    *)
(* the requests in flight, the outcome is the outcome of SOME serial order of them.              *)
(*                                                                                              *)
(* state of the file: the value under each of three keys (a content write replaces all three).   *)
(* A case = the calls in flight together (2 or 3) + the size class of the document.  For every    *)
(* case the specification computes the set of serial outcomes; the harness starts the calls      *)
(* together on one loop (asyncio.gather) with a rendezvous at os.replace (a call that has        *)
(* reached the install step waits a bounded time for the others to reach it too) and             *)
(* spec/Trace_OneLoop.tla demands that the observed outcome is one of the serial ones.           *)
EXTENDS Naturals, Sequences, FiniteSets, TLC, Json

CONSTANTS CallKinds, Sizes, MaxCalls
VARIABLE case

Keys == {"A", "B", "C"}
Init0 == [k \in Keys |-> "init"]
(* call kinds: content_b / content_n  full content (all keys := own id) with / without base_hash of the initial text   *)
(*             setB_b / setB_n / setC_n / delC_n / nullB_n  one-key amendments (changes) with / without base_hash       *)
(*             dry_n  a preview (corrections_only)                                                                       *)
HasBase(k) == k \in {"content_b", "setB_b"}
Apply(k, id, st, untouched) ==     \* <<result, st'>>; untouched = the file still holds the initial text
  IF HasBase(k) /\ ~untouched THEN <<"E_HASH", st>>
  ELSE CASE k \in {"content_b", "content_n"} -> <<"ok", [q \in Keys |-> id]>>
         [] k \in {"setB_b", "setB_n"}       -> <<"ok", [st EXCEPT !["B"] = id]>>
         [] k = "setC_n"                     -> <<"ok", [st EXCEPT !["C"] = id]>>
         [] k = "delC_n"                     -> <<"ok", [st EXCEPT !["C"] = "absent"]>>
         [] k = "nullB_n"                    -> <<"ok", [st EXCEPT !["B"] = "null"]>>
         [] OTHER                            -> <<"ok", st>>                                  \* dry_n
Writes(k) == k # "dry_n"

RECURSIVE RunOrder(_, _, _, _, _)
RunOrder(calls, order, st, untouched, res) ==      \* order: sequence of call indexes still to serve
  IF order = <<>> THEN [res |-> res, final |-> st]
  ELSE LET i == Head(order) r == Apply(calls[i], "w" \o ToString(i), st, untouched) IN
       RunOrder(calls, Tail(order), r[2], untouched /\ ~(r[1] = "ok" /\ Writes(calls[i])), [res EXCEPT ![i] = r[1]])

Perms(n) == IF n = 2 THEN {<<1, 2>>, <<2, 1>>}
            ELSE {<<1, 2, 3>>, <<1, 3, 2>>, <<2, 1, 3>>, <<2, 3, 1>>, <<3, 1, 2>>, <<3, 2, 1>>}
SerialOutcomes(calls) == {RunOrder(calls, o, Init0, TRUE, [i \in DOMAIN calls |-> "-"]) : o \in Perms(Len(calls))}

Init == case = [calls |-> <<>>, size |-> "small", done |-> FALSE]
AddCall == ~case.done /\ Len(case.calls) < MaxCalls /\ \E k \in CallKinds : case' = [case EXCEPT !.calls = Append(@, k)]
Close == ~case.done /\ Len(case.calls) >= 2 /\ \E s \in Sizes : case' = [case EXCEPT !.size = s, !.done = TRUE]
Next == AddCall \/ Close

EmitCase == IF case.done THEN PrintT(ToJson([calls |-> case.calls, size |-> case.size, serial |-> SerialOutcomes(case.calls)])) ELSE TRUE

(* in-model: whatever the order, at most one of the calls that carry the SAME base_hash succeeds, and a key nobody named keeps its value *)
AtMostOneBaseWinner == case.done => \A o \in SerialOutcomes(case.calls) :
                          Cardinality({i \in DOMAIN case.calls : HasBase(case.calls[i]) /\ o.res[i] = "ok"}) <= 1
                          \/ \A i \in DOMAIN case.calls : ~Writes(case.calls[i])
UnnamedKeysKept == case.done /\ (\A i \in DOMAIN case.calls : case.calls[i] \notin {"content_b", "content_n"})
                     => \A o \in SerialOutcomes(case.calls) : o.final["A"] = "init"
=============================================================================
