---------------------------- MODULE Seal ----------------------------
(* C15 - a seal verifies on the sealed content and on nothing else.                           *)
(* Generator: the documents of Author.tla, each followed by every single-site content           *)
(* MUTATION (Mutate step): replace a value (by another value or the same text with another      *)
(* kind), delete / insert / swap nodes, rename a key, move a node out of its parent, change a   *)
(* META value, the envelope name, the frontmatter, the separator.  The hash is modelled as an    *)
(* injective function of the canonical text, and canonical text as injective in the content      *)
(* (Content!AbsDoc): a mutation that changes AbsDoc must make verification answer INVALID.       *)
EXTENDS Author

CONSTANT MutPool          \* value ids a value may be replaced by
VARIABLE mut              \* "none" or the mutation applied to doc (mdoc = the mutated document)

NoMut == [k |-> "none", i |-> 0, v |-> "-"]
Leaf(body, i) == i = Len(body) \/ body[i + 1].d <= body[i].d
NewItem(d) == Item(d, "assign", "ZNEW", "w", None, None, None, None, DefSp)

RemoveAt(s, i) == SubSeq(s, 1, i - 1) \o SubSeq(s, i + 1, Len(s))
InsertAt(s, i, x) == SubSeq(s, 1, i - 1) \o <<x>> \o SubSeq(s, i, Len(s))

Mutations(d) ==
     {[k |-> "value", i |-> i, v |-> v] : i \in {j \in DOMAIN d.body : d.body[j].k = "assign" /\ d.body[j].key # ""}, v \in MutPool}
  \cup {[k |-> "delete", i |-> i, v |-> "-"] : i \in {j \in DOMAIN d.body : Leaf(d.body, j) /\ d.body[j].k # "comment"}}
  \cup {[k |-> "insert", i |-> i, v |-> "-"] : i \in 1..(Len(d.body) + 1)}
  \cup {[k |-> "swap", i |-> i, v |-> "-"] : i \in {j \in 1..(Len(d.body) - 1) : Leaf(d.body, j) /\ Leaf(d.body, j + 1)
                                                        /\ d.body[j].d = d.body[j + 1].d /\ d.body[j].k # "comment" /\ d.body[j + 1].k # "comment"}}
  \cup {[k |-> "key", i |-> i, v |-> "-"] : i \in {j \in DOMAIN d.body : d.body[j].k \in {"assign", "block"} /\ d.body[j].key # ""}}
  \cup {[k |-> "outdent", i |-> i, v |-> "-"] : i \in {j \in DOMAIN d.body : j = Len(d.body) /\ d.body[j].d >= 1 /\ d.body[j].k = "assign" /\ d.body[j].key # ""}}
  \cup {[k |-> "meta", i |-> i, v |-> v] : i \in DOMAIN d.meta, v \in {"int", "two"}}
  \cup {[k |-> "env", i |-> 0, v |-> "-"], [k |-> "sep", i |-> 0, v |-> "-"]}
  \cup (IF d.fm # None THEN {[k |-> "fm", i |-> 0, v |-> "-"]} ELSE {})

Apply(d, m) ==
  CASE m.k = "value"  -> [d EXCEPT !.body[m.i].v = m.v, !.body[m.i].sp = DefSp]
    [] m.k = "delete" -> [d EXCEPT !.body = RemoveAt(d.body, m.i)]
    [] m.k = "insert" -> [d EXCEPT !.body = InsertAt(d.body, m.i, NewItem(IF m.i = 1 THEN 0 ELSE IF m.i <= Len(d.body) THEN d.body[m.i].d ELSE 0))]
    [] m.k = "swap"   -> [d EXCEPT !.body = [j \in DOMAIN d.body |-> IF j = m.i THEN d.body[m.i + 1] ELSE IF j = m.i + 1 THEN d.body[m.i] ELSE d.body[j]]]
    [] m.k = "key"    -> [d EXCEPT !.body[m.i].key = "ZRENAMED"]
    [] m.k = "outdent" -> [d EXCEPT !.body[m.i].d = d.body[m.i].d - 1]
    [] m.k = "meta"   -> [d EXCEPT !.meta[m.i] = IF d.meta[m.i].v # None THEN [d.meta[m.i] EXCEPT !.v = m.v, !.sp = DefSp]
                                                  ELSE [d.meta[m.i] EXCEPT !.v = m.v, !.nested = <<>>, !.sp = DefSp]]
    [] m.k = "env"    -> [d EXCEPT !.env = "OTHER_NAME"]
    [] m.k = "sep"    -> [d EXCEPT !.sep = ~d.sep]
    [] m.k = "fm"     -> [d EXCEPT !.fm = "fm2"]
    [] OTHER -> d

SInit == Init /\ mut = NoMut
Grow == mut = NoMut /\ AddItem /\ mut' = mut
Mutate == /\ mut = NoMut /\ doc.body # <<>>
          /\ \E m \in Mutations(doc) : /\ WellFormed(Apply(doc, m).body)
                                       /\ AbsDoc(Apply(doc, m)) # AbsDoc(doc)        \* a real change of content
                                       /\ mut' = m
          /\ UNCHANGED doc
SNext == Grow \/ Mutate

EmitSeal == IF doc.body # <<>> \/ doc.meta # <<>>
            THEN PrintT(ToJson([doc |-> doc, lines |-> Render(doc), final |-> doc.g.final, mut |-> mut,
                                mlines |-> IF mut = NoMut THEN <<>> ELSE Render(Apply(doc, mut))]))
            ELSE TRUE
(* in-model: every emitted mutation changes the abstract content (so INVALID can be demanded) *)
MutationsChangeContent == mut # NoMut => AbsDoc(Apply(doc, mut)) # AbsDoc(doc)

(* ---- what verification must answer *)
Expected(kind) == CASE kind \in {"sealed_in_memory", "sealed_after_text_roundtrip", "resealed_same", "cli_seal_then_verify"} -> "VERIFIED"
                    [] kind \in {"cosmetic_indent4", "cosmetic_spaces", "cosmetic_blank_lines", "cosmetic_no_end", "cosmetic_trailing_ws"} -> "VERIFIED"
                    [] kind \in {"mutated", "hash_char_changed", "cli_mutated"} -> "INVALID"
                    \* the stored hash shortened, lengthened, emptied; content added behind the seal section (last position of the body)
                    [] kind \in {"hash_last_char_dropped", "hash_char_appended", "hash_prefix_only", "hash_emptied",
                                 "node_appended_behind_seal", "cli_node_appended_behind_seal"} -> "INVALID"
                    [] OTHER (* unsealed *) -> "NO_SEAL"
=============================================================================
