---------------------------- MODULE Trace_Docs ----------------------------
(* Trace validation for the document family (C01, C02, C03, C07).                         *)
(* One record = one generated document (content + spelling) put through the real reader   *)
(* and emitter.  The specification recomputes what the document contains (Content!AbsDoc),*)
(* which receipts its spelling owes (Surface!Receipts), runs the strict-profile recogniser *)
(* on the OBSERVED canonical text, and keeps the convergence memo: all spellings of one    *)
(* content (records of one group, consecutive in the trace) must give the same canonical   *)
(* text.  Failing clauses are printed by name; the trace must be consumed completely.      *)
EXTENDS Surface, Json, IOUtils

CONSTANT Prop            \* "C01" | "C02" | "C03" | "C07" : which clause family is judged
Trace == ndJsonDeserialize(IOEnv.TRACE_FILE)
VARIABLES l, gid, canon  \* position, current content group, canonical text bound for that group

Map(f(_), s) == [i \in DOMAIN s |-> f(s[i])]
KeyOf(it)  == <<it.k, it.key>>
DepthOf(it) == it.d
ValOf(it)  == it.v
TypeOf(it) == it.v.t
TgtOf(it)  == it.tgt
SidOf(it)  == <<it.sid, it.ann>>
CmtOf(it)  == IF it.k = "comment" THEN it.key ELSE it.trail

(* C02: content equality, clause by clause; `want` from the specification, `got` observed *)
ContentFails(want, got, pfx) ==
     (IF want.env = got.env THEN {} ELSE {pfx \o "EnvelopeEqual"})
  \cup (IF want.sent = got.sent THEN {} ELSE {pfx \o "SentinelEqual"})
  \cup (IF want.fm = got.fm THEN {} ELSE {pfx \o "FrontmatterEqual"})
  \cup (IF want.meta = got.meta THEN {} ELSE {pfx \o "MetaEqual"})
  \cup (IF want.sep = got.sep THEN {} ELSE {pfx \o "SeparatorEqual"})
  \cup (IF Len(want.body) = Len(got.body) THEN {} ELSE {pfx \o "ItemCountEqual"})
  \cup (IF Map(KeyOf, want.body) = Map(KeyOf, got.body) THEN {} ELSE {pfx \o "KeysEqual"})
  \cup (IF Map(DepthOf, want.body) = Map(DepthOf, got.body) THEN {} ELSE {pfx \o "NestingEqual"})
  \cup (IF Map(TypeOf, want.body) = Map(TypeOf, got.body) THEN {} ELSE {pfx \o "TypesEqual"})
  \cup (IF Map(ValOf, want.body) = Map(ValOf, got.body) THEN {} ELSE {pfx \o "ValuesEqual"})
  \cup (IF Map(TgtOf, want.body) = Map(TgtOf, got.body) THEN {} ELSE {pfx \o "TargetsEqual"})
  \cup (IF Map(SidOf, want.body) = Map(SidOf, got.body) THEN {} ELSE {pfx \o "SectionIdsEqual"})
  \cup (IF Map(CmtOf, want.body) = Map(CmtOf, got.body) THEN {} ELSE {pfx \o "CommentsEqual"})

C02Fails(r) ==
  IF ~r.obs.accepted THEN {"Accepted"}
  ELSE ContentFails(AbsDoc(r.case.doc), r.obs.read, "")
       \cup (IF r.obs.reread_ok THEN ContentFails(AbsDoc(r.case.doc), r.obs.reread, "Reread:") ELSE {"Reread:Accepted"})

(* C01: Lifecycle - canonical text is accepted by the strict reader and is a fixed point, per route *)
RouteFails(o) == (IF o.accepted /\ ~o.reread_ok THEN {"Readable:" \o o.route} ELSE {})
            \cup (IF o.accepted /\ o.reread_ok /\ ~o.fix THEN {"Fixpoint:" \o o.route} ELSE {})
C01Fails(r) == UNION {RouteFails(r.obs.routes[j]) : j \in DOMAIN r.obs.routes}

(* C03: convergence (memo bound by the first record of a group) and strict profile of the observed text *)
C03Fails(r) ==
  IF ~r.obs.accepted THEN {"Accepted"}
  ELSE (IF r.gid = gid /\ canon # "" /\ r.obs.canon_hash # canon THEN {"Converge"} ELSE {})
       \cup StrictViolations(r.obs.canon)

(* C07: the receipts observed are exactly the receipts owed; canonical text owes none *)
RcOf(x) == [kind |-> x.kind, orig |-> x.orig, norm |-> x.norm, line |-> x.line, col |-> x.col]
C07Fails(r) ==
  IF ~r.obs.accepted THEN {}
  ELSE LET owed == {RcOf(x) : x \in Receipts(r.case.lines)}
           seen == {RcOf(r.obs.receipts[j]) : j \in DOMAIN r.obs.receipts}
       IN (IF owed \subseteq seen THEN {} ELSE {"Missing"})
          \cup (IF seen \subseteq owed THEN {} ELSE {"Spurious"})
          \cup (IF Len(r.obs.receipts) = Cardinality(seen) THEN {} ELSE {"Duplicate"})
          \cup (IF r.obs.canon_receipts = 0 THEN {} ELSE {"Quiet"})
          \cup UNION {(IF r.obs.surfaced[j].ok THEN {} ELSE {"NotSurfaced:" \o r.obs.surfaced[j].route}) : j \in DOMAIN r.obs.surfaced}

(* every property: an earlier document of the same worker process, read again after other documents were served, gives the   *)
(* very same observation (what is observed for this property does not depend on what the process did before)                  *)
RepeatFails(r) == IF r.obs.repeat_ok THEN {} ELSE {"SameOnRepeat"}
FailsOf(r) == RepeatFails(r) \cup (CASE Prop = "C01" -> C01Fails(r) [] Prop = "C02" -> C02Fails(r)
                                     [] Prop = "C03" -> C03Fails(r) [] OTHER -> C07Fails(r))

Judge(r) == LET f == FailsOf(r) IN IF f = {} THEN TRUE ELSE PrintT(ToJson([i |-> r.i, fails |-> f]))

TInit == l = 1 /\ gid = "" /\ canon = ""
TNext == /\ l <= Len(Trace)
         /\ LET r == Trace[l] IN
            /\ Judge(r)
            /\ gid' = r.gid
            /\ canon' = IF r.gid = gid /\ canon # "" THEN canon ELSE (IF r.obs.accepted THEN r.obs.canon_hash ELSE "")
         /\ l' = l + 1
TAccepted == TLCGet("stats").diameter - 1 = Len(Trace)
=============================================================================
