---------------------------- MODULE Trace_FileSys ----------------------------
(* Trace validation for C16 (all-or-nothing writes).                                       *)
(* A trace is the sequence of file-system calls that ONE run of the real write path made    *)
(* (recorded by interposition, with injected faults / a kill as planned by FaultPlans), then *)
(* the value returned and a snapshot of the real directory.  This module EXECUTES the calls  *)
(* on the abstract file system of FileSys.tla and evaluates, after EVERY call, the invariant  *)
(* Atomic - each intermediate state is a possible interruption point, whether or not this     *)
(* particular run was interrupted there - and at the end ErrorClean / SuccessExact and the    *)
(* agreement of the abstract state with the real snapshot.                                    *)
EXTENDS FileSys, Json, IOUtils

Trace == ndJsonDeserialize(IOEnv.TRACE_FILE)
VARIABLES l, fs, fds, tid, sc, bad   \* position, abstract FS, open handles, current trace, its scenario, cleanup excused

(* scenario record (first event of a trace): old = "OLD" | "ABSENT", oldmode, new = chunk ids of the new text *)
OldData == <<"OLD">>
InitFs(s) == [p \in {"target"} |-> IF s.old = "OLD" THEN SFile(OldData, s.oldmode, TRUE) ELSE Absent]

Step(e, f, d) ==   \* <<fs', fds'>> after event e on <<f, d>>
  IF e.res # "ok" THEN
       (IF e.op = "flush" /\ e.h \in DOMAIN d THEN PartialFlush(f, d, e.h)
        ELSE IF e.op = "close" /\ e.h \in DOMAIN d THEN CloseTorn(f, d, e.h)
        ELSE <<f, d>>)
  ELSE CASE e.op = "mkstemp" -> Mkstemp(f, d, e.h, e.path)
         [] e.op = "open_w"  -> OpenW(f, d, e.h, e.path)
         [] e.op = "open_r"  -> OpenR(f, d, e.h, e.path)
         [] e.op = "fdopen"  -> <<f, d>>
         [] e.op = "write"   -> IF e.h \in DOMAIN d THEN Write(f, d, e.h, e.chunk) ELSE <<f, d>>
         [] e.op = "flush"   -> IF e.h \in DOMAIN d THEN Flush(f, d, e.h) ELSE <<f, d>>
         [] e.op = "close"   -> IF e.h \in DOMAIN d THEN Close(f, d, e.h) ELSE <<f, d>>
         [] e.op = "fsync"   -> IF e.h \in DOMAIN d THEN Fsync(f, d, e.h) ELSE FsyncPath(f, d, e.path)
         [] e.op = "fchmod"  -> IF e.h \in DOMAIN d THEN Fchmod(f, d, e.h, e.mode) ELSE <<f, d>>
         [] e.op = "chmod"   -> Chmod(f, d, e.path, e.mode)
         [] e.op = "rename"  -> Rename(f, d, e.path, e.path2)
         [] e.op = "unlink"  -> Unlink(f, d, e.path)
         [] e.op = "mkdir"   -> Mkdir(f, d, e.path)
         [] e.op = "kill"    -> Kill(f, d)
         [] OTHER            -> <<f, d>>            \* stat, lstat, read, readlink: no effect on the abstract state

Atomic(f, s) == Holds(f, "target", OldData, s.new) \in {s.old, "NEW"}

(* the call returned: status in ok | error (an exception escaping the entry point counts as error) *)
RetFails(e, f, s, excused) ==
  IF e.status = "ok"
  THEN (IF Holds(f, "target", OldData, s.new) = "NEW" THEN {} ELSE {"SuccessExact:content"})
       \cup (IF e.hash_ok THEN {} ELSE {"SuccessExact:hash"})
       \cup (IF s.old = "OLD" /\ IsFile(Node(f, "target")) /\ Node(f, "target").mode # s.oldmode THEN {"SuccessExact:mode"} ELSE {})
  ELSE (IF Holds(f, "target", OldData, s.new) = s.old THEN {} ELSE {"ErrorClean:target"})
       \cup (IF s.old = "OLD" /\ IsFile(Node(f, "target")) /\ Node(f, "target").mode # s.oldmode THEN {"ErrorClean:mode"} ELSE {})
       \cup (IF {p \in TmpFiles(f) : f[p].k = "file"} = {} \/ excused THEN {} ELSE {"ErrorClean:tempfile"})

(* the real directory after the run, as the harness saw it *)
SnapFails(e, f, s) ==
     (IF e.target = Holds(f, "target", OldData, s.new) THEN {} ELSE {"ModelAgreesWithDisk:target"})
  \cup (IF e.ntmp = Cardinality({p \in TmpFiles(f) : f[p].k = "file"}) THEN {} ELSE {"ModelAgreesWithDisk:tempfiles"})
  \cup (IF e.target \in {"ABSENT"} \/ ~IsFile(Node(f, "target")) \/ e.mode = Node(f, "target").mode THEN {} ELSE {"ModelAgreesWithDisk:mode"})

Report(i, f) == IF f = {} THEN TRUE ELSE PrintT(ToJson([i |-> i, fails |-> f]))

TInit == l = 1 /\ fs = <<>> /\ fds = <<>> /\ tid = 0 /\ sc = [old |-> "ABSENT", oldmode |-> 0, new |-> <<>>] /\ bad = FALSE
TNext ==
  /\ l <= Len(Trace)
  /\ LET e == Trace[l] IN
     IF e.op = "begin"
     THEN /\ tid' = e.tid /\ sc' = e.scenario /\ fs' = InitFs(e.scenario) /\ fds' = [g \in {} |-> 0] /\ bad' = FALSE
     ELSE IF e.op = "ret"
     THEN /\ Report(e.i, RetFails(e, fs, sc, bad)) /\ UNCHANGED <<fs, fds, tid, sc, bad>>
     ELSE IF e.op = "snap"
     THEN /\ Report(e.i, SnapFails(e, fs, sc)) /\ UNCHANGED <<fs, fds, tid, sc, bad>>
     ELSE LET nx == Step(e, fs, fds) IN
          /\ fs' = nx[1] /\ fds' = nx[2]
          /\ Report(e.i, (IF Atomic(nx[1], sc) THEN {} ELSE {"Atomic:after_" \o e.op})
                          \cup (IF Durable(nx[1], "target") \/ ~Atomic(nx[1], sc) THEN {} ELSE {"Durable:after_" \o e.op}))
          \* a failed unlink / existence probe of a temp file is a cleanup the code could not have done
          /\ bad' = (bad \/ (e.res # "ok" /\ e.op \in {"unlink", "stat", "lstat"} /\ e.path \notin {"target", "parent"}))
          /\ UNCHANGED <<tid, sc>>
  /\ l' = l + 1
TAccepted == TLCGet("stats").diameter - 1 = Len(Trace)
=============================================================================
