---------------------------- MODULE Constraints ----------------------------
(* Reference semantics of OCTAVE constraint chains (C08; reused by C09, C10, C11, C13), written  *)
(* from the documentation (core spec section 5, the property statement), not from the code.       *)
(* A member's verdict on a value is "yes" | "no" | "dc" (dc = the documentation does not settle   *)
(* the combination: either answer of the implementation is accepted; the set is named below).      *)
(* A chain accepts a value iff it declares no conflict and every member accepts it - whatever the  *)
(* order, since the verdict is a conjunction over the SET of members.                              *)
EXTENDS ConstraintPools, FiniteSets, TLC, Json

IsStr(v) == v.t = "str"
IsNum(v) == v.t \in {"int", "float"}
RLe(a, b) == a[1] * b[2] <= b[1] * a[2]           \* rationals with positive denominators
REq(a, b) == a[1] * b[2] = b[1] * a[2]
IsPrefix(s, t) == Len(s) <= Len(t) /\ SubSeq(t, 1, Len(s)) = s

Digits == {"0", "1", "2", "3", "4", "5", "6", "7", "8", "9"}
Lower == {"a","b","c","d","e","f","g","h","i","j","k","l","m","n","o","p","q","r","s","t","u","v","w","x","y","z"}
Upper == {"A","B","C","D","E","F","G","H","I","J","K","L","M","N","O","P","Q","R","S","T","U","V","W","X","Y","Z"}
D(c) == CASE c = "0" -> 0 [] c = "1" -> 1 [] c = "2" -> 2 [] c = "3" -> 3 [] c = "4" -> 4 [] c = "5" -> 5
          [] c = "6" -> 6 [] c = "7" -> 7 [] c = "8" -> 8 [] OTHER -> 9
AllIn(s, set) == \A i \in DOMAIN s : s[i] \in set
Num2(s, i) == 10 * D(s[i]) + D(s[i + 1])
Num4(s, i) == 1000 * D(s[i]) + 100 * D(s[i + 1]) + 10 * D(s[i + 2]) + D(s[i + 3])

(* ---- calendar *)
Leap(y) == (y % 4 = 0 /\ y % 100 # 0) \/ y % 400 = 0
DaysIn(y, m) == IF m \in {1, 3, 5, 7, 8, 10, 12} THEN 31 ELSE IF m \in {4, 6, 9, 11} THEN 30 ELSE IF Leap(y) THEN 29 ELSE 28
DateShape(s) == Len(s) = 10 /\ AllIn(SubSeq(s, 1, 4), Digits) /\ s[5] = "-" /\ AllIn(SubSeq(s, 6, 7), Digits) /\ s[8] = "-"
                /\ AllIn(SubSeq(s, 9, 10), Digits)
DateValid(s) == LET y == Num4(s, 1) m == Num2(s, 6) d == Num2(s, 9) IN y >= 1 /\ m \in 1..12 /\ d >= 1 /\ d <= DaysIn(y, m)
TimeShape(s) == Len(s) = 8 /\ AllIn(<<s[1], s[2], s[4], s[5], s[7], s[8]>>, Digits) /\ s[3] = ":" /\ s[6] = ":"
TimeValid(s) == Num2(s, 1) <= 23 /\ Num2(s, 4) <= 59 /\ Num2(s, 7) <= 59
ZoneShape(s) == s = <<>> \/ s = <<"Z">> \/ (Len(s) = 6 /\ s[1] \in {"+", "-"} /\ AllIn(<<s[2], s[3], s[5], s[6]>>, Digits) /\ s[4] = ":")
ZoneValid(s) == Len(s) # 6 \/ (Num2(s, 2) <= 23 /\ Num2(s, 5) <= 59)
(* documented ISO8601 forms: date | date T time [Z | +hh:mm | -hh:mm] *)
IsoDocShape(s) == DateShape(s) \/ (Len(s) >= 19 /\ DateShape(SubSeq(s, 1, 10)) /\ s[11] = "T" /\ TimeShape(SubSeq(s, 12, 19))
                                   /\ ZoneShape(SubSeq(s, 20, Len(s))))
IsoDocValid(s) == DateValid(SubSeq(s, 1, 10)) /\ (Len(s) = 10 \/ (TimeValid(SubSeq(s, 12, 19)) /\ ZoneValid(SubSeq(s, 20, Len(s)))))
(* could a string be one of the ISO 8601 forms the documentation does not list (basic, week, fractions, space)? *)
IsoOtherChars == Digits \cup {"-", ":", "T", "Z", "W", "+", ".", ",", " "}

(* ---- the small regex pool, each pattern's meaning stated directly on the characters *)
ReMatch(p, s) ==
  CASE p = "lower" -> s # <<>> /\ AllIn(s, Lower)                                          \* ^[a-z]+$
    [] p = "d3"    -> Len(s) = 3 /\ AllIn(s, Digits)                                       \* ^[0-9]{3}$
    [] p = "alt"   -> s \in {<<"a","b">>, <<"c","d">>, <<"a","b","x">>, <<"c","d","x">>}   \* ^(ab|cd)x?$
    [] p = "digits" -> s # <<>> /\ AllIn(s, Digits)                                         \* ^[0-9]+$
    [] p = "noparen" -> s # <<>> /\ \A j \in DOMAIN s : s[j] # ")"                           \* ^[^)]+$
    [] OTHER       -> Len(s) = 3 /\ s[1] = "a" /\ s[3] = "c"                               \* ^a.c$   (no newline in the pool)

LowerOf(c) == CASE c = "P" -> "p" [] c = "Y" -> "y" [] c = "T" -> "t" [] c = "H" -> "h" [] c = "O" -> "o" [] c = "N" -> "n" [] OTHER -> c

(* ---- one member on one value *)
Member(c, v) ==
  CASE c.k = "OPT" -> "yes"
    [] c.k = "REQ" -> IF v.t = "null" \/ (IsStr(v) /\ v.cs = <<>>) THEN "no" ELSE IF v.t = "list" /\ v.len = 0 THEN "dc" ELSE "yes"
    [] c.k = "CONST" ->
         LET k == Val(c.v) IN
         IF IsStr(k) /\ IsStr(v) THEN (IF k.cs = v.cs THEN "yes" ELSE "no")
         ELSE IF IsNum(k) /\ IsNum(v) THEN (IF REq(k.num, v.num) THEN "yes" ELSE "no")
         ELSE IF (IsNum(k) /\ v.t = "bool") \/ (k.t = "bool" /\ IsNum(v)) THEN "dc"      \* Python: True == 1
         ELSE IF k.t = v.t /\ k.t = "bool" THEN (IF k.cs = v.cs THEN "yes" ELSE "no")
         ELSE "no"
    [] c.k = "ENUM" ->
         IF ~IsStr(v) THEN "dc"                                                           \* non-string against ENUM: undocumented
         ELSE IF v.cs \in c.vals \/ Cardinality({x \in c.vals : IsPrefix(v.cs, x)}) = 1 THEN "yes" ELSE "no"
    [] c.k = "TYPE" ->
         IF (c.ty = "STRING" /\ IsStr(v)) \/ (c.ty = "NUMBER" /\ IsNum(v)) \/ (c.ty = "BOOLEAN" /\ v.t = "bool")
            \/ (c.ty = "LIST" /\ v.t = "list") \/ (c.ty = "LITERAL" /\ v.t = "zone") THEN "yes" ELSE "no"
    [] c.k = "REGEX" -> IF ~IsStr(v) THEN "dc" ELSE IF ReMatch(c.re, v.cs) THEN "yes" ELSE "no"
    [] c.k = "RANGE" ->
         IF IsNum(v) THEN (IF RLe(c.lo, v.num) /\ RLe(v.num, c.hi) THEN "yes" ELSE "no")
         ELSE IF v.t = "bool" THEN "no"
         ELSE IF IsStr(v) /\ v.cs # <<>> /\ AllIn(v.cs, Digits \cup {".", "-", "e", "E", "+", " ", "_"}) THEN "dc"   \* numeric-looking text
         ELSE "no"
    [] c.k = "MIN" -> IF IsStr(v) THEN (IF Len(v.cs) >= c.n THEN "yes" ELSE "no")
                      ELSE IF v.t = "list" THEN (IF v.len >= c.n THEN "yes" ELSE "no") ELSE "no"
    [] c.k = "MAX" -> IF IsStr(v) THEN (IF Len(v.cs) <= c.n THEN "yes" ELSE "no")
                      ELSE IF v.t = "list" THEN (IF v.len <= c.n THEN "yes" ELSE "no") ELSE "no"
    [] c.k = "DATE" -> IF ~IsStr(v) THEN (IF v.t \in {"int", "float"} THEN "dc" ELSE "no")
                       ELSE IF DateShape(v.cs) /\ DateValid(v.cs) THEN "yes" ELSE "no"
    [] c.k = "ISO" -> IF ~IsStr(v) THEN (IF v.t \in {"int", "float"} THEN "dc" ELSE "no")
                      ELSE IF IsoDocShape(v.cs) THEN (IF IsoDocValid(v.cs) THEN "yes" ELSE "no")
                      ELSE IF v.cs # <<>> /\ AllIn(v.cs, IsoOtherChars) /\ Len(v.cs) >= 7 THEN "dc"  \* other ISO 8601 forms: not documented
                      ELSE "no"
    [] OTHER (* LANG *) -> IF v.t = "zone" /\ [i \in DOMAIN v.cs |-> LowerOf(v.cs[i])] = c.tag THEN "yes" ELSE "no"

(* ---- conflicts declared by a chain (a sequence of constraint ids); "dc" when the documentation is silent *)
Members(ch) == {Cons(ch[i]) : i \in DOMAIN ch}
Conflict(ch) ==
  LET ms == Members(ch)
      consts == {c \in ms : c.k = "CONST"}
      enums == {c \in ms : c.k = "ENUM"}
  IN IF (\E a \in ms : a.k = "REQ") /\ (\E b \in ms : b.k = "OPT") THEN "yes"
     ELSE IF \E a, b \in consts : a.v # b.v /\ ~(IsNum(Val(a.v)) /\ IsNum(Val(b.v)) /\ REq(Val(a.v).num, Val(b.v).num)) THEN "yes"
     ELSE IF \E e \in enums, k \in consts : IsStr(Val(k.v)) /\ Val(k.v).cs \notin e.vals THEN "yes"
     ELSE IF \E e \in enums, k \in consts : ~IsStr(Val(k.v)) THEN "dc"         \* CONST[1] against ENUM texts
     ELSE "no"

Verdict(ch, v) ==
  LET ms == Members(ch) cf == Conflict(ch) IN
  IF cf = "yes" THEN "reject"
  ELSE IF \E c \in ms : Member(c, v) = "no" THEN (IF cf = "dc" THEN "dc" ELSE "reject")
  ELSE IF cf = "dc" \/ \E c \in ms : Member(c, v) = "dc" THEN "dc"
  ELSE "accept"

(* the code a single-member chain must report when it rejects *)
CodeOf(c, v) ==
  CASE c.k = "REQ" -> {"E003"} [] c.k = "CONST" -> {"E004"}
    [] c.k = "ENUM" -> IF Cardinality({x \in c.vals : IsPrefix(v.cs, x)}) > 1 THEN {"E006"} ELSE {"E005"}
    [] c.k = "TYPE" -> {"E007"} [] c.k = "REGEX" -> {"E008"} [] c.k = "RANGE" -> {"E011"} [] c.k = "MAX" -> {"E012"}
    [] c.k = "MIN" -> {"E013"} [] c.k = "DATE" -> {"E014"} [] c.k = "ISO" -> {"E015"} [] OTHER -> {"E007", "E016"}

(* ---------------------------------------------------------------------------------- *)
(* generator of chains: every SEQUENCE (every order) of up to MaxChain constraint ids   *)
CONSTANTS MaxChain, ChainPool
VARIABLE ch
Init == ch = <<>>
Extend == Len(ch) < MaxChain /\ \E c \in ChainPool : ch' = Append(ch, c)
Next == Extend
EmitCase == IF ch # <<>> THEN PrintT(ToJson([chain |-> ch, text |-> [i \in DOMAIN ch |-> ConsText(ch[i])]])) ELSE TRUE
(* in-model: the verdict does not depend on the order of the members (it is defined on the set) *)
OrderFree == \A v \in {"s:ab", "n:5", "null"} : Len(ch) >= 2 => Verdict(ch, Val(v)) = Verdict(<<ch[Len(ch)]>> \o SubSeq(ch, 1, Len(ch) - 1), Val(v))
=============================================================================
