---------------------------- MODULE PathGuard ----------------------------
(* C19 - tools cannot be steered outside the intended files.                                *)
(* Generator: all paths of up to MaxSeg segments over segment KINDS, absolute or relative,  *)
(* interpreted over one fixed layout (materialised by the harness):                          *)
(*   BASE/root            sandbox root (= working directory)                                 *)
(*     d/                 real directory; d/ and d/d/ contain the same entries as root        *)
(*     ld  -> ../out      symlink to a directory OUTSIDE root                                 *)
(*     ldi -> d           symlink to a directory inside root                                  *)
(*     lf.oct.md -> ../out/secret.oct.md   symlink to a file outside root                     *)
(*     dl.oct.md -> missing                dangling symlink                                   *)
(*     f.oct.md           an existing document                                                *)
(*   BASE/out/secret.oct.md  (and out/d/..., out/f.oct.md): must never be read or written     *)
(*   BASE/root-private/   sibling whose name starts with the root's name (URI space)          *)
(* Oracle: MustRefuse(path) as the statement words it; Confined is demanded of every call.    *)
EXTENDS Naturals, Sequences, FiniteSets, TLC, Json

CONSTANTS MaxSeg, Space       \* Space = "paths" (tool / CLI path arguments) | "uris" (vocabulary source URIs)
VARIABLE p                    \* [abs |-> BOOLEAN, segs |-> Seq(kind)]

DirKinds  == {"d", "nd", ".", "..", "ld", "ldi", "empty"}
LinkKinds == {"ld", "ldi", "lf.oct.md", "dl.oct.md"}
FileKinds == {"f.oct.md", "n.oct.md", "n.md", "n.octave", "n.txt", "n.OCT.MD", "n.tar.md", "n.oct.md.bak", "noext",
              "lf.oct.md", "dl.oct.md", "nul.oct.md", "long.oct.md"}
UriKinds  == {"d", "..", ".", "ld", "ldi", "lf.oct.md", "f.oct.md", "n.oct.md", "root-private", "root"}
Kinds == IF Space = "paths" THEN DirKinds \cup FileKinds ELSE UriKinds

AllowedExt(k) == k \in {"f.oct.md", "n.oct.md", "n.md", "n.octave", "n.tar.md", "lf.oct.md", "dl.oct.md", "nul.oct.md", "long.oct.md"}
Weird(k) == k \in {"nul.oct.md", "long.oct.md"}       \* NUL byte / 300-character name: refusal is not prescribed, confinement is

(* depth of real directories below root reached by a prefix, or 9 when the prefix does not exist as a real directory *)
RECURSIVE DepthAfter(_, _)
DepthAfter(segs, n) ==
  IF n = 0 THEN 0
  ELSE LET dd == DepthAfter(segs, n - 1)
           k == segs[n]
       IN IF dd = 9 THEN 9
          ELSE IF k \in {".", "empty"} THEN dd
          ELSE IF k = "d" THEN (IF dd < 2 THEN dd + 1 ELSE 9)
          ELSE 9          \* symlinks, "..", files, missing names: not a real directory below root

HasDotDot(segs) == \E i \in DOMAIN segs : segs[i] = ".."
(* segment i is a symbolic link iff it is a link name and its parent exists as a real directory below root *)
SymlinkAt(segs, i) == segs[i] \in LinkKinds /\ DepthAfter(segs, i - 1) # 9
HasSymlink(segs) == \E i \in DOMAIN segs : SymlinkAt(segs, i)
(* the file name of a path: its last segment that is not "." or an empty segment (x/. and x/ name x, as pathlib has it) *)
RECURSIVE NameFrom(_, _)
NameFrom(segs, n) == IF n = 0 THEN "." ELSE IF segs[n] \in {".", "empty"} THEN NameFrom(segs, n - 1) ELSE segs[n]
Last(segs) == NameFrom(segs, Len(segs))

MustRefuse(q) == HasDotDot(q.segs) \/ HasSymlink(q.segs) \/ ~AllowedExt(Last(q.segs))
DontCare(q) == \E i \in DOMAIN q.segs : Weird(q.segs[i])

Init == \E a \in BOOLEAN : p = [abs |-> a, segs |-> <<>>]
AddSeg == Len(p.segs) < MaxSeg /\ \E k \in Kinds : /\ (p.segs = <<>> => k # "empty")     \* a leading empty segment would name the file-system root
                                                    /\ p' = [p EXCEPT !.segs = Append(@, k)]
Next == AddSeg
EmitCase == IF p.segs # <<>> /\ (Space = "paths" \/ ~p.abs) THEN PrintT(ToJson(p)) ELSE TRUE
=============================================================================
