---------------------------- MODULE Probes ----------------------------
(* C20: structured probes for the tool envelopes - every value of the pool (spec/Values.tla), in *)
(* its plainest spelling, placed where a tool copies values into its reply: as a duplicated META  *)
(* field (duplicate-key receipts), a duplicated top-level / block field, and a lone field.        *)
EXTENDS Surface, Json
CONSTANT Shapes
VARIABLE pr
Init == pr = [v |-> "-", shape |-> "-"]
Pick == pr.v = "-" /\ \E v \in ValIds \ ZoneIds, s \in Shapes : pr' = [v |-> v, shape |-> s]
Next == Pick
One(pad, key, v) == AssignLines(pad, key, v, DefSp, <<>>)
Lines(p) ==
  CASE p.shape = "meta_dup"  -> << <<"===", "DOC", "===">>, <<"META", ":">> >> \o One(Pad(2), "TYPE", "w") \o One(Pad(2), "F", p.v) \o One(Pad(2), "F", p.v)
                                 \o << <<"K", "::", "1">>, <<"===END===">> >>
    [] p.shape = "top_dup"   -> << <<"===", "DOC", "===">> >> \o One(<<>>, "K", p.v) \o One(<<>>, "K", p.v) \o << <<"===END===">> >>
    [] p.shape = "block_dup" -> << <<"===", "DOC", "===">>, <<"B", ":">> >> \o One(Pad(2), "K", p.v) \o One(Pad(2), "K", p.v) \o << <<"===END===">> >>
    [] OTHER                 -> << <<"===", "DOC", "===">> >> \o One(<<>>, "K", p.v) \o << <<"===END===">> >>
EmitCase == IF pr.v # "-" THEN PrintT(ToJson([probe |-> pr, lines |-> Lines(pr)])) ELSE TRUE
=============================================================================
