---------------------------- MODULE Trace_Scalars ----------------------------
(* Trace validation for C04: every record is one case put through every position/route; *)
(* the specification recomputes what must come back and names the clause that failed.   *)
EXTENDS Scalars, IOUtils

Trace == ndJsonDeserialize(IOEnv.TRACE_FILE)
VARIABLE l

Required(r) == IF r.tool THEN Positions \X KeyClasses \X Routes
                         ELSE Positions \X KeyClasses \X {"api"}
(* observations are grouped: one entry per distinct outcome with the positions `at` it was seen at *)
Covered(r) == UNION { {<<r.obs[j].at[k][1], r.obs[j].at[k][2], r.obs[j].at[k][3]>> : k \in DOMAIN r.obs[j].at}
                      : j \in DOMAIN r.obs }

FailsOf(r) ==
     (IF Required(r) \subseteq Covered(r) THEN {} ELSE {"AllPositions"})
  \cup UNION { (IF ReadAccepted(r.obs[j]) THEN {} ELSE {"ReadAccepted"})
               \cup (IF KindEqual(r.case, r.obs[j]) THEN {} ELSE {"KindEqual"})
               \cup (IF ValueEqual(r.case, r.obs[j]) THEN {} ELSE {"ValueEqual"}) : j \in DOMAIN r.obs }

(* which positions failed which clause, for the report *)
Detail(r) == UNION { {r.obs[j].at[k] : k \in DOMAIN r.obs[j].at} : j \in
               {k \in DOMAIN r.obs : ~ReadAccepted(r.obs[k]) \/ ~KindEqual(r.case, r.obs[k])
                                      \/ ~ValueEqual(r.case, r.obs[k])} }

Judge(r) == LET f == FailsOf(r) IN
            IF f = {} THEN TRUE ELSE PrintT(ToJson([i |-> r.i, fails |-> f, at |-> Detail(r)]))

TInit == l = 1 /\ cur = [t |-> "str", s |-> <<>>, lit |-> ""]
TNext == l <= Len(Trace) /\ Judge(Trace[l]) /\ l' = l + 1 /\ UNCHANGED cur
TAccepted == TLCGet("stats").diameter - 1 = Len(Trace)
=============================================================================
