---------------------------- MODULE Alphabet ----------------------------
(* Atoms of text used by every specification in this directory.                          *)
(*                                                                                       *)
(* Text inside the specifications is a SEQUENCE OF ATOMS, never a TLA+ string built by    *)
(* concatenation.  An atom is                                                             *)
(*   - a one-character printable ASCII string ("a", ":", " "), standing for itself;       *)
(*   - a name "Uxxxx" / "Uxxxxx" (upper-case hex), standing for that Unicode code point;  *)
(*   - a multi-character word from Words, standing for its characters in order.           *)
(* The harness turns atoms into characters by exactly this rule and turns observed text   *)
(* back into one-character atoms (printable ASCII as itself, anything else as Uxxxx).     *)
EXTENDS Naturals, Sequences

(* one representative of every lexer-significant class (property C04's alphabet) *)
Letters   == {"a", "n", "t", "e"}
Digits    == {"1"}
IdPunct   == {"_", ".", "-", "/"}
White     == {" ", "U0009", "U000A", "U000D"}
Quoting   == {"\"", "\\"}
Struct    == {":", "[", "]", ",", "<", ">", "{", "}", "$", "#", "U00A7"}
UniOps    == {"U2192", "U2295", "U29FA", "U21CC", "U2227", "U2228"}
AsciiOps  == {"+", "~", "|", "&", "@"}
Misc      == {"%", "=", "`", ";", "(", ")"}
Exotic    == {"U0001", "U0301", "U1F600"}          \* control, combining acute, non-BMP
LineLike  == {"U000C", "U0085", "U2028"}          \* form feed, NEL, LINE SEPARATOR: line boundaries to str.splitlines(), not to OCTAVE
Words     == {"true", "false", "null", "vs", "//", "::", "->", "<->", "==="}

Single    == Letters \cup Digits \cup IdPunct \cup White \cup Quoting \cup Struct
               \cup UniOps \cup AsciiOps \cup Misc \cup Exotic \cup LineLike
Symbols   == Single \cup Words

(* characters of the multi-character atoms *)
Expand(a) ==
  CASE a = "true"  -> <<"t","r","u","e">>
    [] a = "false" -> <<"f","a","l","s","e">>
    [] a = "null"  -> <<"n","u","l","l">>
    [] a = "vs"    -> <<"v","s">>
    [] a = "//"    -> <<"/","/">>
    [] a = "::"    -> <<":",":">>
    [] a = "->"    -> <<"-",">">>
    [] a = "<->"   -> <<"<","-",">">>
    [] a = "==="   -> <<"=","=","=">>
    [] OTHER       -> <<a>>

RECURSIVE Flatten(_)
Flatten(s) == IF s = <<>> THEN <<>> ELSE Expand(Head(s)) \o Flatten(Tail(s))

(* Canonical composition (NFC) restricted to what the alphabets used here can produce:    *)
(* a base letter followed by COMBINING ACUTE ACCENT U+0301.                               *)
Acute(c) ==
  CASE c = "a" -> "U00E1" [] c = "e" -> "U00E9" [] c = "n" -> "U0144" [] c = "s" -> "U015B"
    [] c = "u" -> "U00FA" [] c = "l" -> "U013A" [] c = "r" -> "U0155" [] c = "A" -> "U00C1"
    [] c = "E" -> "U00C9" [] c = "o" -> "U00F3" [] c = "i" -> "U00ED" [] c = "y" -> "U00FD"
    [] c = "c" -> "U0107" [] c = "z" -> "U017A" [] c = "g" -> "U01F5" [] c = "k" -> "U1E31"
    [] c = "m" -> "U1E3F" [] c = "p" -> "U1E55" [] c = "w" -> "U1E83"
    [] OTHER -> "NONE"

RECURSIVE NFCfrom(_, _)
(* acc = already normalised prefix, s = rest (both sequences of one-character atoms) *)
NFCfrom(acc, s) ==
  IF s = <<>> THEN acc
  ELSE IF Head(s) = "U0301" /\ acc # <<>> /\ Acute(acc[Len(acc)]) # "NONE"
       THEN NFCfrom(SubSeq(acc, 1, Len(acc) - 1) \o <<Acute(acc[Len(acc)])>>, Tail(s))
       ELSE NFCfrom(Append(acc, Head(s)), Tail(s))
NFC(s) == NFCfrom(<<>>, s)

=============================================================================
