---------------------------- MODULE Trace_Repair ----------------------------
(* Trace validation for C11: (before, after, log) of a repair run, judged as a REFINEMENT: the  *)
(* implementation is free not to repair, but whatever it changes must be allowed by RepairOf of   *)
(* SchemaDocs.tla, keys/nesting/order must be untouched, every change must be logged exactly     *)
(* once with tier REPAIR and the exact before/after, fix off changes nothing, and a second run    *)
(* changes nothing further.                                                                      *)
EXTENDS SchemaDocs, IOUtils
Trace == ndJsonDeserialize(IOEnv.TRACE_FILE)
VARIABLE l

(* o.before / o.after : sequences of [key, field, kind, text] for the children of the schema block, in order *)
Changed(o) == {j \in DOMAIN o.before : j \in DOMAIN o.after /\ (o.before[j].kind # o.after[j].kind \/ o.before[j].text # o.after[j].text)}
AllowedAt(c, o, j) ==
  LET f == o.before[j].field
      st == IF f \in DOMAIN c.inst THEN c.inst[f] ELSE "ok"
  IN RepairOf(st) # "same" /\ o.after[j].text = RepairOf(st)
     /\ o.after[j].kind = (IF st \in {"casefold", "casefold2", "dup_casefold", "casefold1"} THEN "str" ELSE IF st = "numfloat" THEN "float" ELSE "int")
LogPairs(o) == {<<o.log[j].before, o.log[j].after>> : j \in DOMAIN o.log}
RouteFails(c, o) ==
     (IF [j \in DOMAIN o.before |-> o.before[j].key] = [j \in DOMAIN o.after |-> o.after[j].key] THEN {} ELSE {"KeysNestingOrderUnchanged:" \o o.route})
  \cup (IF o.others_same THEN {} ELSE {"RestOfDocumentUnchanged:" \o o.route})
  \cup (IF ~o.fix /\ (Changed(o) # {} \/ o.log # <<>>) THEN {"FixOffChangesNothing:" \o o.route} ELSE {})
  \cup (IF \A j \in Changed(o) : AllowedAt(c, o, j) THEN {} ELSE {"OnlyAllowedRepairs:" \o o.route})
  \cup (IF Len(o.log) = Cardinality(Changed(o)) THEN {} ELSE {"EveryChangeLoggedOnce:" \o o.route})
  \cup (IF \A j \in Changed(o) : <<o.before[j].text, o.after[j].text>> \in LogPairs(o) THEN {} ELSE {"LogHasExactBeforeAfter:" \o o.route})
  \cup (IF \A j \in DOMAIN o.log : o.log[j].tier = "REPAIR" THEN {} ELSE {"LogTierRepair:" \o o.route})
  \cup (IF o.idempotent THEN {} ELSE {"Idempotent:" \o o.route})
FailsOf(r) == UNION {RouteFails(r.case, r.obs[j]) : j \in DOMAIN r.obs}
Judge(r) == LET f == FailsOf(r) IN IF f = {} THEN TRUE ELSE PrintT(ToJson([i |-> r.i, fails |-> f]))
TInit == l = 1 /\ sd = [fields |-> {}, policy |-> "NONE", tgt |-> "field", inst |-> <<>>, unknown |-> FALSE, sp |-> DefSp, done |-> TRUE]
TNext == l <= Len(Trace) /\ Judge(Trace[l]) /\ l' = l + 1 /\ UNCHANGED sd
TAccepted == TLCGet("stats").diameter - 1 = Len(Trace)
=============================================================================
