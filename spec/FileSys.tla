---------------------------- MODULE FileSys ----------------------------
(* Abstract POSIX fragment used by the write path of octave-mcp (C16, C17, C19).          *)
(*                                                                                       *)
(* state                                                                                 *)
(*   fs   : path name -> node.  node = [k |-> "absent"] | [k |-> "dir"]                   *)
(*          | [k |-> "file", data |-> Seq(chunk id), mode |-> Nat, synced |-> BOOLEAN]    *)
(*          synced = every chunk of data has reached STABLE STORAGE (fsync since the last  *)
(*          chunk arrived): the page-cache layer.  A process kill keeps un-synced data, a    *)
(*          power loss does not; a directory entry that refers to un-synced data may be      *)
(*          found empty or torn after a power loss (Durable below).                          *)
(*          | [k |-> "symlink"]                                                          *)
(*   fds  : handle -> [path, buf, w]   open descriptions with their USER-SPACE buffer     *)
(*          (data written but not yet flushed is in buf, not in the file; a kill loses it)*)
(* Paths are abstract names ("target", "tmp1", "parent", ...): the harness maps real paths *)
(* to names.  File content is a sequence of chunk ids (hashes of the byte strings written),*)
(* so "complete new content" is the sequence NEWC given by the case.                       *)
EXTENDS Naturals, Sequences, FiniteSets, TLC

Absent == [k |-> "absent"]
Dir == [k |-> "dir"]
SFile(data, mode, synced) == [k |-> "file", data |-> data, mode |-> mode, synced |-> synced]
File(data, mode) == SFile(data, mode, FALSE)          \* data that just arrived is in the page cache only

IsFile(n) == n.k = "file"
Node(fs, p) == IF p \in DOMAIN fs THEN fs[p] ELSE Absent
Put(fs, p, n) == [q \in DOMAIN fs \cup {p} |-> IF q = p THEN n ELSE fs[q]]

(* ---- system calls: each returns the new <<fs, fds>>; failed calls (res # "ok") change nothing *)
(* creat+excl of a fresh temporary file, opened for writing through handle h *)
Mkstemp(fs, fds, h, p) == << Put(fs, p, File(<<>>, 384)),                     \* 0600
                             [g \in DOMAIN fds \cup {h} |-> IF g = h THEN [path |-> p, buf |-> <<>>, w |-> TRUE] ELSE fds[g]] >>
(* open(path, "w"): truncates / creates *)
OpenW(fs, fds, h, p) == << Put(fs, p, File(<<>>, IF IsFile(Node(fs, p)) THEN Node(fs, p).mode ELSE 420)),   \* 0644
                           [g \in DOMAIN fds \cup {h} |-> IF g = h THEN [path |-> p, buf |-> <<>>, w |-> TRUE] ELSE fds[g]] >>
OpenR(fs, fds, h, p) == << fs, [g \in DOMAIN fds \cup {h} |-> IF g = h THEN [path |-> p, buf |-> <<>>, w |-> FALSE] ELSE fds[g]] >>
Write(fs, fds, h, c) == << fs, [fds EXCEPT ![h].buf = Append(@, c)] >>                 \* user space only
FlushData(fs, fds, h) ==
  LET p == fds[h].path IN
  IF fds[h].buf = <<>> \/ ~IsFile(Node(fs, p)) THEN fs
  ELSE Put(fs, p, File(Node(fs, p).data \o fds[h].buf, Node(fs, p).mode))
Flush(fs, fds, h) == << FlushData(fs, fds, h), [fds EXCEPT ![h].buf = <<>>] >>
(* a flush that fails midway (ENOSPC/EIO): a torn prefix reaches the file *)
PartialFlush(fs, fds, h) ==
  LET p == fds[h].path IN
  << IF fds[h].buf = <<>> \/ ~IsFile(Node(fs, p)) THEN fs ELSE Put(fs, p, File(Append(Node(fs, p).data, "TORN"), Node(fs, p).mode)),
     [fds EXCEPT ![h].buf = <<>>] >>
Close(fs, fds, h) == << FlushData(fs, fds, h), [g \in DOMAIN fds \ {h} |-> fds[g]] >>
CloseTorn(fs, fds, h) == << PartialFlush(fs, fds, h)[1], [g \in DOMAIN fds \ {h} |-> fds[g]] >>
Fchmod(fs, fds, h, m) == << IF IsFile(Node(fs, fds[h].path)) THEN Put(fs, fds[h].path, [Node(fs, fds[h].path) EXCEPT !.mode = m]) ELSE fs, fds >>
Chmod(fs, fds, p, m) == << IF IsFile(Node(fs, p)) THEN Put(fs, p, [Node(fs, p) EXCEPT !.mode = m]) ELSE fs, fds >>
(* fsync(2): what the FILE holds now (not what is still in a user-space buffer) reaches stable storage *)
FsyncPath(fs, fds, p) == << IF IsFile(Node(fs, p)) THEN Put(fs, p, [Node(fs, p) EXCEPT !.synced = TRUE]) ELSE fs, fds >>
Fsync(fs, fds, h) == FsyncPath(fs, fds, fds[h].path)
(* rename(2): atomic; the destination gets the source's node AS IT IS ON DISK (buffers stay with their handles) *)
Rename(fs, fds, a, b) == << Put(Put(fs, b, Node(fs, a)), a, Absent),
                            [g \in DOMAIN fds |-> IF fds[g].path = a THEN [fds[g] EXCEPT !.path = b] ELSE fds[g]] >>
Unlink(fs, fds, p) == << Put(fs, p, Absent), fds >>
Mkdir(fs, fds, p) == << Put(fs, p, Dir), fds >>
(* process death: every open description disappears together with its user-space buffer *)
Kill(fs, fds) == << fs, [g \in {} |-> 0] >>

(* ---- what a path holds, in the vocabulary of the properties *)
Holds(fs, p, OLDC, NEWC) ==
  LET n == Node(fs, p) IN
  IF n.k = "absent" THEN "ABSENT"
  ELSE IF n.k # "file" THEN "NOTFILE"
  ELSE IF n.data = NEWC THEN "NEW"
  ELSE IF n.data = OLDC THEN "OLD"
  ELSE "TORN"
(* power-loss safety of the install: the target's directory entry never refers to data that is not on stable storage *)
(* (an empty file that was never written to holds nothing that could be lost)                                      *)
Durable(fs, p) == IsFile(Node(fs, p)) => (Node(fs, p).synced \/ Node(fs, p).data = <<>>)
TmpFiles(fs) == {p \in DOMAIN fs : fs[p].k # "absent" /\ p \notin {"target", "parent", "root"}}
=============================================================================
