---------------------------- MODULE Trace_Projection ----------------------------
(* Trace validation for C14: one record = one generated tree ejected in every mode and format;  *)
(* observed per (route, mode, format): the leaves of the output (path, abstract value) and the   *)
(* lossy flag.  Markdown is judged on paths only (it has no value syntax of its own).            *)
EXTENDS Projection, IOUtils
Trace == ndJsonDeserialize(IOEnv.TRACE_FILE)
VARIABLE l

LastKeys(S) == {x.path[Len(x.path)] : x \in S}
ObsLeaves(o) == {[path |-> o.leaves[j].path, v |-> o.leaves[j].v] : j \in DOMAIN o.leaves}
Tag(o) == o.route \o "/" \o o.mode \o "/" \o o.format
OneFails(body, o, ref) ==
  LET want == Leaves(body)
      got == ObsLeaves(o)
      md == o.format = "markdown"          \* markdown cannot express which block a leaf after a nested block belongs to: keys only
      sub == IF md THEN LastKeys(got) \subseteq LastKeys(want) ELSE got \subseteq want
      eq == IF md THEN LastKeys(got) = LastKeys(want) ELSE got = want
  IN IF ~o.ok THEN {"ViewProduced:" \o Tag(o)}
     ELSE (IF sub THEN {} ELSE {"NoInvention:" \o Tag(o)})
          \cup (IF o.mode \in {"canonical", "authoring"} /\ ~eq THEN {"Complete:" \o Tag(o)} ELSE {})
          \cup (IF o.mode \in {"canonical", "authoring"} /\ o.lossy = "true" THEN {"CompleteNotLossy:" \o Tag(o)} ELSE {})
          \cup (IF ~eq /\ o.lossy = "false" THEN {"Honest:" \o Tag(o)} ELSE {})
          \cup (IF (IF md THEN LastKeys(got) = {p[Len(p)] : p \in ref} ELSE Paths(got) = ref) THEN {} ELSE {"FormatsAgree:" \o Tag(o)})

(* reference of a mode = the paths of its OCTAVE rendering through the same route *)
RefOf(r, o) == LET c == {j \in DOMAIN r.obs : r.obs[j].route = o.route /\ r.obs[j].mode = o.mode /\ r.obs[j].format = "octave" /\ r.obs[j].ok}
               IN IF c = {} THEN Paths(ObsLeaves(o)) ELSE Paths(ObsLeaves(r.obs[CHOOSE j \in c : TRUE]))
FailsOf(r) == UNION {OneFails(r.case.body, r.obs[j], RefOf(r, r.obs[j])) : j \in DOMAIN r.obs}
Judge(r) == LET f == FailsOf(r) IN IF f = {} THEN TRUE ELSE PrintT(ToJson([i |-> r.i, fails |-> f]))
TInit == l = 1 /\ t = <<>>
TNext == l <= Len(Trace) /\ Judge(Trace[l]) /\ l' = l + 1 /\ UNCHANGED t
TAccepted == TLCGet("stats").diameter - 1 = Len(Trace)
=============================================================================
