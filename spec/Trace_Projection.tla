---------------------------- MODULE Trace_Projection ----------------------------
(* Trace validation for C14: one record = one generated tree ejected in every mode and format;  *)
(* observed per (route, mode, format): the leaves of the output (path, abstract value) and the   *)
(* lossy flag.  Markdown is judged on paths only (it has no value syntax of its own).            *)
EXTENDS Projection, IOUtils
Trace == ndJsonDeserialize(IOEnv.TRACE_FILE)
VARIABLE l

LastKeys(S) == {x.path[Len(x.path)] : x \in S}
(* what a Markdown view may show for a value: scalars as their text (booleans and null in either spelling), lists of scalars as  *)
(* the items joined by ", "; other kinds (maps, zones, patterns) are judged on their key only                                   *)
Scalar(v) == v.t \in {"str", "int", "float", "bool", "null"}
Judgeable(v) == Scalar(v) \/ (v.t = "list" /\ \A j \in DOMAIN v.xs : Scalar(v.xs[j]))
RECURSIVE MdTexts(_), Joins(_, _)
MdTexts(v) == CASE v.t \in {"str", "int", "float"} -> {v.s}
                [] v.t = "bool" -> IF v.s = "true" THEN {"True", "true"} ELSE {"False", "false"}
                [] v.t = "null" -> {"None", "null", ""}
                [] OTHER -> Joins(v.xs, 1)
Joins(xs, i) == IF i > Len(xs) THEN {""}
                ELSE {a \o (IF i < Len(xs) THEN ", " ELSE "") \o b : a \in MdTexts(xs[i]), b \in Joins(xs, i + 1)}
(* a Markdown leaf whose key names exactly one leaf of the source (and a judgeable one) must show that leaf's value *)
MdValueBad(want, got) ==
  \E g \in got : LET k == g.path[Len(g.path)]
                      ws == {w \in want : w.path[Len(w.path)] = k} IN
                  /\ Cardinality(ws) = 1 /\ g.v.t = "md"
                  /\ LET w == CHOOSE x \in ws : TRUE IN Judgeable(w.v) /\ g.v.s \notin MdTexts(w.v)
ObsLeaves(o) == {[path |-> o.leaves[j].path, v |-> o.leaves[j].v] : j \in DOMAIN o.leaves}
Tag(o) == o.route \o "/" \o o.mode \o "/" \o o.format
OneFails(body, o, ref) ==
  LET want == Leaves(body)
      got == ObsLeaves(o)
      md == o.format = "markdown"          \* markdown cannot express which block a leaf after a nested block belongs to: keys only
      sub == IF md THEN LastKeys(got) \subseteq LastKeys(want) ELSE got \subseteq want
      eq == IF md THEN LastKeys(got) = LastKeys(want) ELSE got = want
  IN IF ~o.ok THEN {"ViewProduced:" \o Tag(o)}
     ELSE (IF sub THEN {} ELSE {"NoInvention:" \o Tag(o)})
          \cup (IF md /\ MdValueBad(want, got) THEN {"NoInvention:value:" \o Tag(o)} ELSE {})
          \cup (IF o.mode \in {"canonical", "authoring"} /\ ~eq THEN {"Complete:" \o Tag(o)} ELSE {})
          \cup (IF o.mode \in {"canonical", "authoring"} /\ o.lossy = "true" THEN {"CompleteNotLossy:" \o Tag(o)} ELSE {})
          \cup (IF ~eq /\ o.lossy = "false" THEN {"Honest:" \o Tag(o)} ELSE {})
          \cup (IF (IF md THEN LastKeys(got) = {p[Len(p)] : p \in ref} ELSE Paths(got) = ref) THEN {} ELSE {"FormatsAgree:" \o Tag(o)})

(* reference of a mode = the paths of its OCTAVE rendering through the same route *)
RefOf(r, o) == LET c == {j \in DOMAIN r.obs : r.obs[j].route = o.route /\ r.obs[j].mode = o.mode /\ r.obs[j].format = "octave" /\ r.obs[j].ok}
               IN IF c = {} THEN Paths(ObsLeaves(o)) ELSE Paths(ObsLeaves(r.obs[CHOOSE j \in c : TRUE]))
FailsOf(r) == UNION {OneFails(r.case.body, r.obs[j], RefOf(r, r.obs[j])) : j \in DOMAIN r.obs}
Judge(r) == LET f == FailsOf(r) IN IF f = {} THEN TRUE ELSE PrintT(ToJson([i |-> r.i, fails |-> f]))
TInit == l = 1 /\ t = <<>>
TNext == l <= Len(Trace) /\ Judge(Trace[l]) /\ l' = l + 1 /\ UNCHANGED t
TAccepted == TLCGet("stats").diameter - 1 = Len(Trace)
=============================================================================
