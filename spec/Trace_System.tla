---------------------------- MODULE Trace_System ----------------------------
(* Trace validation for the system level.  One record = one step of one workspace life replayed    *)
(* into the real tools: [i, step (the log entry of spec/OctaveSystem.tla), obs].                    *)
(*   obs.ok        the call was accepted (status success / exit 0)                                    *)
(*   obs.holds     per path: [there, abs] - the file read back by the real reader and projected        *)
(*   obs.seal      per path: what verify_seal answers on the file (ABSENT when there is no file)       *)
(*   obs.others    no byte of any other path changed during the step                                   *)
(*   obs.echo      readers: the text returned equals the bytes of the file (eject canonical) /          *)
(*                 the status is VALIDATED or INVALID (validate)                                         *)
EXTENDS OctaveSystem, IOUtils
Trace == ndJsonDeserialize(IOEnv.TRACE_FILE)
VARIABLE l
Map(f(_), s) == [i \in DOMAIN s |-> f(s[i])]
KeyOf(it) == <<it.d, it.k, it.key>>
SameDoc(a, b) == a.body = b.body /\ a.meta = b.meta /\ a.env = b.env /\ a.sep = b.sep /\ a.fm = b.fm /\ a.sent = b.sent
PathFails(s, o, j) ==
  LET w == s.holds[j] g == o.holds[j] IN
  (IF w.there # g.there THEN {"FilePresence:" \o s.act}
   ELSE IF ~w.there THEN {}
   ELSE (IF Map(KeyOf, g.abs.body) = Map(KeyOf, w.abs.body) THEN {} ELSE {"FileHolds:keys:" \o s.act})
        \cup (IF Map(KeyOf, g.abs.body) = Map(KeyOf, w.abs.body) /\ g.abs.body # w.abs.body THEN {"FileHolds:values:" \o s.act} ELSE {})
        \cup (IF g.abs.meta = w.abs.meta THEN {} ELSE {"FileHolds:meta:" \o s.act})
        \cup (IF g.abs.env = w.abs.env /\ g.abs.sep = w.abs.sep /\ g.abs.fm = w.abs.fm /\ g.abs.sent = w.abs.sent THEN {} ELSE {"FileHolds:header:" \o s.act}))
  \cup (IF s.seal[j] = o.seal[j] THEN {} ELSE {"Seal:" \o s.seal[j] \o ":" \o s.act})
FailsOf(r) ==
  LET s == r.step o == r.obs IN
  (IF s.ok = o.ok THEN {} ELSE {(IF s.ok THEN "Accepted:" ELSE "Refused:") \o s.act \o ":" \o s.arg.hash})
  \cup UNION {PathFails(s, o, j) : j \in DOMAIN s.holds}
  \cup (IF o.others THEN {} ELSE {"OtherFilesUntouched:" \o s.act})
  \cup (IF o.echo THEN {} ELSE {"Echo:" \o s.act})
Judge(r) == LET f == FailsOf(r) IN IF f = {} THEN TRUE ELSE PrintT(ToJson([i |-> r.i, fails |-> f]))
TInit == l = 1 /\ reqs = <<>> /\ doc = NoDoc /\ ws = [p \in Paths |-> Gone] /\ log = <<>>
TNext == l <= Len(Trace) /\ Judge(Trace[l]) /\ l' = l + 1 /\ UNCHANGED <<doc, reqs, ws, log>>
TAccepted == TLCGet("stats").diameter - 1 = Len(Trace)
=============================================================================
