---------------------------- MODULE Values ----------------------------
(* The value pool of the document model (C01-C03, C05, C07, C09, C14, C15, C18).           *)
(* For each value id: Abs = WHAT the value is (kind, text, items) and Spell = the ways it    *)
(* may be WRITTEN (documented lenient freedoms); spelling 1 is the plainest one.            *)
(*   abstract value  [t, s, xs]: t in str|int|float|bool|null|list|pair|zone|ln|holo;       *)
(*                   text s uses {Uxxxx} for non-ASCII / control characters.                *)
(*   spelling        sequence of lines [k, c]: k = first (continues the KEY:: line) | rel   *)
(*                   (own line at the node's indent) | raw (own line, verbatim);            *)
(*                   c = chunks: ASCII text, an atom name Uxxxx (one character), or a       *)
(*                   zero-width marker (@MW: a multi-word bare value starts here; @TQ: a    *)
(*                   triple-quoted string opens here).                                      *)
(* Every chunk that is an ASCII operator alias, and every marker, is a                       *)
(* rewrite site: Surface!Receipts derives the expected receipts from the chunks.            *)
(* (typed with tools/gen_values.py)                                                         *)
EXTENDS Naturals, Sequences

CoreIds == {"w", "two", "empty", "bsn", "nl", "numstr", "int", "float", "posexp", "t", "null", "ref", "uni", "flow", "chain", "syn", "tens", "qop", "tens3", "slashes", "nlsp", "ann", "ctor1", "holo", "l0", "l2", "l3", "lnest", "lmatrix", "lmap", "lfalsy", "lq", "lslash", "lexpr", "z1", "zpy", "ztrail", "zseal", "zempty"}
FullIds == {"three", "quote", "bslash", "tab", "truestr", "nullstr", "vsstr", "truedot", "neg", "zero", "one", "fzero", "fone", "big", "exp", "negexp", "bigexp", "intexp", "f1e16", "i1e16", "f17", "finf", "fninf", "f", "ver", "verpre", "var", "vartyped", "ref2b", "path", "hyph", "colon", "pct", "emoji", "alt", "con", "cat", "at", "mixed", "syn3", "slash2", "relpath", "abspath", "docpath", "sjl", "sje", "sjo", "nllead", "ctor2", "ctor0", "catpath", "ctorop", "ctorops", "stageop", "holoenum", "l1", "lnullmap", "lemptymap", "ltq", "lann", "lpattern", "z4", "zoct", "zmd", "ztab", "zblank3", "linf", "l01", "zblank"}
ValIds == CoreIds \cup FullIds
ZoneIds == {"z1", "zpy", "z4", "ztrail", "zseal", "zoct", "zmd", "zempty", "ztab", "zblank3", "zblank"}
ListIds == {"holo", "holoenum", "l0", "l1", "l2", "l3", "lnest", "lmatrix", "lmap", "lfalsy", "lnullmap", "lemptymap", "lq", "ltq", "lslash", "lexpr", "lann", "lpattern", "linf", "l01"}

Abs(v) ==
  CASE v = "w" -> [t |-> "str", s |-> "hello", xs |-> <<>>]
    [] v = "two" -> [t |-> "str", s |-> "hello world", xs |-> <<>>]
    [] v = "three" -> [t |-> "str", s |-> "a b c", xs |-> <<>>]
    [] v = "empty" -> [t |-> "str", s |-> "", xs |-> <<>>]
    [] v = "quote" -> [t |-> "str", s |-> "say \"hi\"", xs |-> <<>>]
    [] v = "bslash" -> [t |-> "str", s |-> "a\\b", xs |-> <<>>]
    [] v = "bsn" -> [t |-> "str", s |-> "a\\nb", xs |-> <<>>]
    [] v = "nl" -> [t |-> "str", s |-> "line1{U000A}line2", xs |-> <<>>]
    [] v = "tab" -> [t |-> "str", s |-> "a{U0009}b", xs |-> <<>>]
    [] v = "numstr" -> [t |-> "str", s |-> "42", xs |-> <<>>]
    [] v = "truestr" -> [t |-> "str", s |-> "true", xs |-> <<>>]
    [] v = "nullstr" -> [t |-> "str", s |-> "null", xs |-> <<>>]
    [] v = "vsstr" -> [t |-> "str", s |-> "vs", xs |-> <<>>]
    [] v = "truedot" -> [t |-> "str", s |-> "true.x", xs |-> <<>>]
    [] v = "int" -> [t |-> "int", s |-> "42", xs |-> <<>>]
    [] v = "neg" -> [t |-> "int", s |-> "-7", xs |-> <<>>]
    [] v = "zero" -> [t |-> "int", s |-> "0", xs |-> <<>>]
    [] v = "one" -> [t |-> "int", s |-> "1", xs |-> <<>>]
    [] v = "fzero" -> [t |-> "float", s |-> "0.0", xs |-> <<>>]
    [] v = "fone" -> [t |-> "float", s |-> "1.0", xs |-> <<>>]
    [] v = "big" -> [t |-> "int", s |-> "9223372036854775808", xs |-> <<>>]
    [] v = "float" -> [t |-> "float", s |-> "3.14", xs |-> <<>>]
    [] v = "exp" -> [t |-> "float", s |-> "1000.0", xs |-> <<>>]
    [] v = "negexp" -> [t |-> "float", s |-> "-2.5e-07", xs |-> <<>>]
    [] v = "posexp" -> [t |-> "float", s |-> "2.5e-07", xs |-> <<>>]
    [] v = "bigexp" -> [t |-> "float", s |-> "1.5e+16", xs |-> <<>>]
    [] v = "intexp" -> [t |-> "float", s |-> "1e+22", xs |-> <<>>]
    [] v = "f1e16" -> [t |-> "float", s |-> "1e+16", xs |-> <<>>]
    [] v = "i1e16" -> [t |-> "int", s |-> "10000000000000000", xs |-> <<>>]
    [] v = "f17" -> [t |-> "float", s |-> "0.30000000000000004", xs |-> <<>>]
    [] v = "finf" -> [t |-> "float", s |-> "inf", xs |-> <<>>]
    [] v = "fninf" -> [t |-> "float", s |-> "-inf", xs |-> <<>>]
    [] v = "t" -> [t |-> "bool", s |-> "true", xs |-> <<>>]
    [] v = "f" -> [t |-> "bool", s |-> "false", xs |-> <<>>]
    [] v = "null" -> [t |-> "null", s |-> "", xs |-> <<>>]
    [] v = "ver" -> [t |-> "str", s |-> "1.2.3", xs |-> <<>>]
    [] v = "verpre" -> [t |-> "str", s |-> "1.0-beta", xs |-> <<>>]
    [] v = "var" -> [t |-> "str", s |-> "$VAR", xs |-> <<>>]
    [] v = "vartyped" -> [t |-> "str", s |-> "$1:role", xs |-> <<>>]
    [] v = "ref" -> [t |-> "str", s |-> "{U00A7}TARGET", xs |-> <<>>]
    [] v = "ref2b" -> [t |-> "str", s |-> "{U00A7}2b", xs |-> <<>>]
    [] v = "path" -> [t |-> "str", s |-> "a/b.c", xs |-> <<>>]
    [] v = "hyph" -> [t |-> "str", s |-> "multi-part-id", xs |-> <<>>]
    [] v = "colon" -> [t |-> "str", s |-> "MOD:SUB", xs |-> <<>>]
    [] v = "pct" -> [t |-> "str", s |-> "60%", xs |-> <<>>]
    [] v = "uni" -> [t |-> "str", s |-> "caf{U00E9}", xs |-> <<>>]
    [] v = "emoji" -> [t |-> "str", s |-> "{U1F600}ok", xs |-> <<>>]
    [] v = "flow" -> [t |-> "str", s |-> "A{U2192}B", xs |-> <<>>]
    [] v = "chain" -> [t |-> "str", s |-> "A{U2192}B{U2192}C", xs |-> <<>>]
    [] v = "syn" -> [t |-> "str", s |-> "A{U2295}B", xs |-> <<>>]
    [] v = "tens" -> [t |-> "str", s |-> "A{U21CC}B", xs |-> <<>>]
    [] v = "alt" -> [t |-> "str", s |-> "A{U2228}B", xs |-> <<>>]
    [] v = "con" -> [t |-> "str", s |-> "A{U2227}B", xs |-> <<>>]
    [] v = "cat" -> [t |-> "str", s |-> "A{U29FA}B", xs |-> <<>>]
    [] v = "at" -> [t |-> "str", s |-> "A@B", xs |-> <<>>]
    [] v = "mixed" -> [t |-> "str", s |-> "A{U2295}B{U2192}C", xs |-> <<>>]
    [] v = "qop" -> [t |-> "str", s |-> "a -> b", xs |-> <<>>]
    [] v = "tens3" -> [t |-> "str", s |-> "A{U21CC}B{U21CC}C", xs |-> <<>>]
    [] v = "syn3" -> [t |-> "str", s |-> "A{U2295}B{U2295}C", xs |-> <<>>]
    [] v = "slashes" -> [t |-> "str", s |-> "//cdn.example.com/lib.js", xs |-> <<>>]
    [] v = "slash2" -> [t |-> "str", s |-> "//", xs |-> <<>>]
    [] v = "relpath" -> [t |-> "str", s |-> "./a.py", xs |-> <<>>]
    [] v = "abspath" -> [t |-> "str", s |-> "/etc/hosts", xs |-> <<>>]
    [] v = "docpath" -> [t |-> "str", s |-> "docs/x.md", xs |-> <<>>]
    [] v = "sjl" -> [t |-> "str", s |-> "[1, 2]", xs |-> <<>>]
    [] v = "sje" -> [t |-> "str", s |-> "[]", xs |-> <<>>]
    [] v = "sjo" -> [t |-> "str", s |-> "{U007B}}", xs |-> <<>>]
    [] v = "nlsp" -> [t |-> "str", s |-> "keeps its space {U000A}next", xs |-> <<>>]
    [] v = "nllead" -> [t |-> "str", s |-> "a{U000A}  b", xs |-> <<>>]
    [] v = "ann" -> [t |-> "str", s |-> "ATHENA<wisdom>", xs |-> <<>>]
    [] v = "ctor1" -> [t |-> "str", s |-> "NEVER<A>", xs |-> <<>>]
    [] v = "ctor2" -> [t |-> "str", s |-> "NEVER<A,B>", xs |-> <<>>]
    [] v = "ctor0" -> [t |-> "str", s |-> "FOO<>", xs |-> <<>>]
    [] v = "catpath" -> [t |-> "str", s |-> "build{U29FA}/dist", xs |-> <<>>]
    [] v = "ctorop" -> [t |-> "str", s |-> "CHECK<lint{U2227}test>", xs |-> <<>>]
    [] v = "ctorops" -> [t |-> "str", s |-> "RULES<fast{U2192}safe,a{U2228}b>", xs |-> <<>>]
    [] v = "stageop" -> [t |-> "str", s |-> "STAGE[x{U2228}y]{U2192}DONE", xs |-> <<>>]
    [] v = "holo" -> [t |-> "holo", s |-> "[\"x\"{U2227}REQ{U2192}{U00A7}T]", xs |-> <<>>]
    [] v = "holoenum" -> [t |-> "holo", s |-> "[\"a\"{U2227}ENUM[a,b]]", xs |-> <<>>]
    [] v = "l0" -> [t |-> "list", s |-> "", xs |-> <<>>]
    [] v = "l1" -> [t |-> "list", s |-> "", xs |-> <<[t |-> "str", s |-> "a", xs |-> <<>>]>>]
    [] v = "l2" -> [t |-> "list", s |-> "", xs |-> <<[t |-> "str", s |-> "a", xs |-> <<>>], [t |-> "str", s |-> "b", xs |-> <<>>]>>]
    [] v = "l3" -> [t |-> "list", s |-> "", xs |-> <<[t |-> "str", s |-> "a", xs |-> <<>>], [t |-> "str", s |-> "b", xs |-> <<>>], [t |-> "str", s |-> "c", xs |-> <<>>]>>]
    [] v = "lnest" -> [t |-> "list", s |-> "", xs |-> <<[t |-> "list", s |-> "", xs |-> <<[t |-> "str", s |-> "a", xs |-> <<>>]>>], [t |-> "str", s |-> "b", xs |-> <<>>]>>]
    [] v = "lmatrix" -> [t |-> "list", s |-> "", xs |-> <<[t |-> "list", s |-> "", xs |-> <<[t |-> "str", s |-> "a", xs |-> <<>>], [t |-> "str", s |-> "b", xs |-> <<>>], [t |-> "str", s |-> "c", xs |-> <<>>]>>], [t |-> "list", s |-> "", xs |-> <<[t |-> "str", s |-> "d", xs |-> <<>>], [t |-> "str", s |-> "e", xs |-> <<>>], [t |-> "str", s |-> "f", xs |-> <<>>]>>]>>]
    [] v = "lmap" -> [t |-> "list", s |-> "", xs |-> <<[t |-> "pair", s |-> "k", xs |-> <<[t |-> "int", s |-> "1", xs |-> <<>>]>>], [t |-> "pair", s |-> "j", xs |-> <<[t |-> "str", s |-> "x", xs |-> <<>>]>>]>>]
    [] v = "lfalsy" -> [t |-> "list", s |-> "", xs |-> <<[t |-> "pair", s |-> "k", xs |-> <<[t |-> "bool", s |-> "false", xs |-> <<>>]>>], [t |-> "pair", s |-> "j", xs |-> <<[t |-> "int", s |-> "0", xs |-> <<>>]>>]>>]
    [] v = "lnullmap" -> [t |-> "list", s |-> "", xs |-> <<[t |-> "pair", s |-> "k", xs |-> <<[t |-> "null", s |-> "", xs |-> <<>>]>>]>>]
    [] v = "lemptymap" -> [t |-> "list", s |-> "", xs |-> <<[t |-> "pair", s |-> "k", xs |-> <<[t |-> "str", s |-> "", xs |-> <<>>]>>]>>]
    [] v = "lq" -> [t |-> "list", s |-> "", xs |-> <<[t |-> "str", s |-> "x y", xs |-> <<>>], [t |-> "int", s |-> "42", xs |-> <<>>], [t |-> "bool", s |-> "true", xs |-> <<>>], [t |-> "null", s |-> "", xs |-> <<>>]>>]
    [] v = "ltq" -> [t |-> "list", s |-> "", xs |-> <<[t |-> "str", s |-> "a{U000A}b", xs |-> <<>>], [t |-> "str", s |-> "X{U2192}Y", xs |-> <<>>], [t |-> "str", s |-> "hello there", xs |-> <<>>]>>]
    [] v = "lslash" -> [t |-> "list", s |-> "", xs |-> <<[t |-> "str", s |-> "//x", xs |-> <<>>], [t |-> "str", s |-> "b", xs |-> <<>>]>>]
    [] v = "lexpr" -> [t |-> "list", s |-> "", xs |-> <<[t |-> "str", s |-> "A{U2192}B", xs |-> <<>>], [t |-> "str", s |-> "C", xs |-> <<>>]>>]
    [] v = "lann" -> [t |-> "list", s |-> "", xs |-> <<[t |-> "str", s |-> "X<a>", xs |-> <<>>], [t |-> "str", s |-> "b", xs |-> <<>>]>>]
    [] v = "lpattern" -> [t |-> "list", s |-> "", xs |-> <<[t |-> "pair", s |-> "PATTERN", xs |-> <<[t |-> "str", s |-> "abc", xs |-> <<>>]>>], [t |-> "pair", s |-> "REGEX", xs |-> <<[t |-> "str", s |-> "a.*", xs |-> <<>>]>>]>>]
    [] v = "z1" -> [t |-> "zone", s |-> "3:", xs |-> <<[t |-> "ln", s |-> "code here", xs |-> <<>>]>>]
    [] v = "zpy" -> [t |-> "zone", s |-> "3:python", xs |-> <<[t |-> "ln", s |-> "a -> b", xs |-> <<>>], [t |-> "ln", s |-> "  k::v # c", xs |-> <<>>]>>]
    [] v = "z4" -> [t |-> "zone", s |-> "4:", xs |-> <<[t |-> "ln", s |-> "```", xs |-> <<>>], [t |-> "ln", s |-> "===END===", xs |-> <<>>]>>]
    [] v = "ztrail" -> [t |-> "zone", s |-> "3:", xs |-> <<[t |-> "ln", s |-> "trail  ", xs |-> <<>>], [t |-> "ln", s |-> "tab{U0009}", xs |-> <<>>]>>]
    [] v = "zseal" -> [t |-> "zone", s |-> "3:", xs |-> <<[t |-> "ln", s |-> "{U00A7}SEAL::SEAL", xs |-> <<>>], [t |-> "ln", s |-> "  SCOPE::LINES[1,2]", xs |-> <<>>], [t |-> "ln", s |-> "  HASH::\"0000\"", xs |-> <<>>]>>]
    [] v = "zoct" -> [t |-> "zone", s |-> "3:octave", xs |-> <<[t |-> "ln", s |-> "===INNER===", xs |-> <<>>], [t |-> "ln", s |-> "K::v", xs |-> <<>>], [t |-> "ln", s |-> "===END===", xs |-> <<>>]>>]
    [] v = "zmd" -> [t |-> "zone", s |-> "3:md", xs |-> <<[t |-> "ln", s |-> "===INNER===", xs |-> <<>>], [t |-> "ln", s |-> "K::v", xs |-> <<>>]>>]
    [] v = "zempty" -> [t |-> "zone", s |-> "3:", xs |-> <<>>]
    [] v = "ztab" -> [t |-> "zone", s |-> "3:txt", xs |-> <<[t |-> "ln", s |-> "{U0009}x", xs |-> <<>>], [t |-> "ln", s |-> "cafe{U0301}", xs |-> <<>>], [t |-> "ln", s |-> "q\"\\n", xs |-> <<>>]>>]
    [] v = "zblank3" -> [t |-> "zone", s |-> "3:", xs |-> <<[t |-> "ln", s |-> "a  ", xs |-> <<>>], [t |-> "ln", s |-> "", xs |-> <<>>], [t |-> "ln", s |-> "", xs |-> <<>>], [t |-> "ln", s |-> "", xs |-> <<>>], [t |-> "ln", s |-> "{U00A7}1::X", xs |-> <<>>], [t |-> "ln", s |-> "{U00A7}2::Y", xs |-> <<>>]>>]
    [] v = "linf" -> [t |-> "list", s |-> "", xs |-> <<[t |-> "float", s |-> "inf", xs |-> <<>>], [t |-> "int", s |-> "1", xs |-> <<>>], [t |-> "float", s |-> "-inf", xs |-> <<>>]>>]
    [] v = "l01" -> [t |-> "list", s |-> "", xs |-> <<[t |-> "int", s |-> "0", xs |-> <<>>], [t |-> "int", s |-> "1", xs |-> <<>>], [t |-> "bool", s |-> "true", xs |-> <<>>], [t |-> "null", s |-> "", xs |-> <<>>]>>]
    [] v = "zblank" -> [t |-> "zone", s |-> "3:", xs |-> <<[t |-> "ln", s |-> "x", xs |-> <<>>], [t |-> "ln", s |-> "", xs |-> <<>>], [t |-> "ln", s |-> "---", xs |-> <<>>]>>]

Spell(v) ==
  CASE v = "w" -> <<<<[k |-> "first", c |-> <<"hello">>]>>,
        <<[k |-> "first", c |-> <<"\"hello\"">>]>>,
        <<[k |-> "first", c |-> <<"@TQ", "\"\"\"hello\"\"\"">>]>>>>
    [] v = "two" -> <<<<[k |-> "first", c |-> <<"\"hello world\"">>]>>,
        <<[k |-> "first", c |-> <<"@MW", "hello", " ", "world">>]>>,
        <<[k |-> "first", c |-> <<"@TQ", "\"\"\"hello world\"\"\"">>]>>>>
    [] v = "three" -> <<<<[k |-> "first", c |-> <<"\"a b c\"">>]>>,
        <<[k |-> "first", c |-> <<"@MW", "a", " ", "b", "  ", "c">>]>>>>
    [] v = "empty" -> <<<<[k |-> "first", c |-> <<"\"\"">>]>>,
        <<[k |-> "first", c |-> <<"@TQ", "\"\"\"\"\"\"">>]>>>>
    [] v = "quote" -> <<<<[k |-> "first", c |-> <<"\"say \\\"hi\\\"\"">>]>>>>
    [] v = "bslash" -> <<<<[k |-> "first", c |-> <<"\"a\\\\b\"">>]>>>>
    [] v = "bsn" -> <<<<[k |-> "first", c |-> <<"\"a\\\\nb\"">>]>>>>
    [] v = "nl" -> <<<<[k |-> "first", c |-> <<"\"line1\\nline2\"">>]>>,
        <<[k |-> "first", c |-> <<"@TQ", "\"\"\"line1">>], [k |-> "raw", c |-> <<"line2\"\"\"">>]>>>>
    [] v = "tab" -> <<<<[k |-> "first", c |-> <<"\"a\\tb\"">>]>>>>
    [] v = "numstr" -> <<<<[k |-> "first", c |-> <<"\"42\"">>]>>>>
    [] v = "truestr" -> <<<<[k |-> "first", c |-> <<"\"true\"">>]>>>>
    [] v = "nullstr" -> <<<<[k |-> "first", c |-> <<"\"null\"">>]>>>>
    [] v = "vsstr" -> <<<<[k |-> "first", c |-> <<"\"vs\"">>]>>>>
    [] v = "truedot" -> <<<<[k |-> "first", c |-> <<"\"true.x\"">>]>>>>
    [] v = "int" -> <<<<[k |-> "first", c |-> <<"42">>]>>>>
    [] v = "neg" -> <<<<[k |-> "first", c |-> <<"-7">>]>>>>
    [] v = "zero" -> <<<<[k |-> "first", c |-> <<"0">>]>>>>
    [] v = "one" -> <<<<[k |-> "first", c |-> <<"1">>]>>>>
    [] v = "fzero" -> <<<<[k |-> "first", c |-> <<"0.0">>]>>>>
    [] v = "fone" -> <<<<[k |-> "first", c |-> <<"1.0">>]>>>>
    [] v = "big" -> <<<<[k |-> "first", c |-> <<"9223372036854775808">>]>>>>
    [] v = "float" -> <<<<[k |-> "first", c |-> <<"3.14">>]>>>>
    [] v = "exp" -> <<<<[k |-> "first", c |-> <<"1e3">>]>>>>
    [] v = "negexp" -> <<<<[k |-> "first", c |-> <<"-2.5e-07">>]>>>>
    [] v = "posexp" -> <<<<[k |-> "first", c |-> <<"2.5e-07">>]>>,
        <<[k |-> "first", c |-> <<"0.00000025">>]>>>>
    [] v = "bigexp" -> <<<<[k |-> "first", c |-> <<"1.5e+16">>]>>,
        <<[k |-> "first", c |-> <<"15000000000000000.0">>]>>>>
    [] v = "intexp" -> <<<<[k |-> "first", c |-> <<"1e+22">>]>>,
        <<[k |-> "first", c |-> <<"1e22">>]>>>>
    [] v = "f1e16" -> <<<<[k |-> "first", c |-> <<"1e+16">>]>>,
        <<[k |-> "first", c |-> <<"1e16">>]>>,
        <<[k |-> "first", c |-> <<"10000000000000000.0">>]>>>>
    [] v = "i1e16" -> <<<<[k |-> "first", c |-> <<"10000000000000000">>]>>>>
    [] v = "f17" -> <<<<[k |-> "first", c |-> <<"0.30000000000000004">>]>>>>
    [] v = "finf" -> <<<<[k |-> "first", c |-> <<"1e999">>]>>,
        <<[k |-> "first", c |-> <<"1e400">>]>>,
        <<[k |-> "first", c |-> <<"2.5E+308">>]>>>>
    [] v = "fninf" -> <<<<[k |-> "first", c |-> <<"-1e999">>]>>,
        <<[k |-> "first", c |-> <<"-1e400">>]>>>>
    [] v = "t" -> <<<<[k |-> "first", c |-> <<"true">>]>>>>
    [] v = "f" -> <<<<[k |-> "first", c |-> <<"false">>]>>>>
    [] v = "null" -> <<<<[k |-> "first", c |-> <<"null">>]>>>>
    [] v = "ver" -> <<<<[k |-> "first", c |-> <<"\"1.2.3\"">>]>>,
        <<[k |-> "first", c |-> <<"1.2.3">>]>>>>
    [] v = "verpre" -> <<<<[k |-> "first", c |-> <<"\"1.0-beta\"">>]>>,
        <<[k |-> "first", c |-> <<"1.0-beta">>]>>>>
    [] v = "var" -> <<<<[k |-> "first", c |-> <<"$VAR">>]>>,
        <<[k |-> "first", c |-> <<"\"$VAR\"">>]>>>>
    [] v = "vartyped" -> <<<<[k |-> "first", c |-> <<"$1:role">>]>>>>
    [] v = "ref" -> <<<<[k |-> "first", c |-> <<"\"", "U00A7", "TARGET\"">>]>>,
        <<[k |-> "first", c |-> <<"U00A7", "TARGET">>]>>,
        <<[k |-> "first", c |-> <<"#", "TARGET">>]>>>>
    [] v = "ref2b" -> <<<<[k |-> "first", c |-> <<"\"", "U00A7", "2b\"">>]>>>>
    [] v = "path" -> <<<<[k |-> "first", c |-> <<"a/b.c">>]>>,
        <<[k |-> "first", c |-> <<"\"a/b.c\"">>]>>>>
    [] v = "hyph" -> <<<<[k |-> "first", c |-> <<"multi-part-id">>]>>>>
    [] v = "colon" -> <<<<[k |-> "first", c |-> <<"\"MOD:SUB\"">>]>>,
        <<[k |-> "first", c |-> <<"MOD", ":", "SUB">>]>>>>
    [] v = "pct" -> <<<<[k |-> "first", c |-> <<"\"60%\"">>]>>,
        <<[k |-> "first", c |-> <<"60%">>]>>>>
    [] v = "uni" -> <<<<[k |-> "first", c |-> <<"caf", "U00E9">>]>>,
        <<[k |-> "first", c |-> <<"cafe", "U0301">>]>>,
        <<[k |-> "first", c |-> <<"\"caf", "U00E9", "\"">>]>>>>
    [] v = "emoji" -> <<<<[k |-> "first", c |-> <<"U1F600", "ok">>]>>>>
    [] v = "flow" -> <<<<[k |-> "first", c |-> <<"A", "U2192", "B">>]>>,
        <<[k |-> "first", c |-> <<"A", "->", "B">>]>>,
        <<[k |-> "first", c |-> <<"A", " ", "->", " ", "B">>]>>,
        <<[k |-> "first", c |-> <<"\"A", "U2192", "B\"">>]>>>>
    [] v = "chain" -> <<<<[k |-> "first", c |-> <<"A", "U2192", "B", "U2192", "C">>]>>,
        <<[k |-> "first", c |-> <<"A", "->", "B", "U2192", "C">>]>>,
        <<[k |-> "first", c |-> <<"A", "->", "B", "->", "C">>]>>>>
    [] v = "syn" -> <<<<[k |-> "first", c |-> <<"A", "U2295", "B">>]>>,
        <<[k |-> "first", c |-> <<"A", "+", "B">>]>>,
        <<[k |-> "first", c |-> <<"A", " ", "+", " ", "B">>]>>>>
    [] v = "tens" -> <<<<[k |-> "first", c |-> <<"A", "U21CC", "B">>]>>,
        <<[k |-> "first", c |-> <<"A", " ", "vs", " ", "B">>]>>,
        <<[k |-> "first", c |-> <<"A", "<->", "B">>]>>>>
    [] v = "alt" -> <<<<[k |-> "first", c |-> <<"A", "U2228", "B">>]>>,
        <<[k |-> "first", c |-> <<"A", "|", "B">>]>>>>
    [] v = "con" -> <<<<[k |-> "first", c |-> <<"A", "U2227", "B">>]>>,
        <<[k |-> "first", c |-> <<"A", "&", "B">>]>>>>
    [] v = "cat" -> <<<<[k |-> "first", c |-> <<"A", "U29FA", "B">>]>>,
        <<[k |-> "first", c |-> <<"A", "~", "B">>]>>>>
    [] v = "at" -> <<<<[k |-> "first", c |-> <<"A@B">>]>>,
        <<[k |-> "first", c |-> <<"A", " ", "@", " ", "B">>]>>>>
    [] v = "mixed" -> <<<<[k |-> "first", c |-> <<"A", "U2295", "B", "U2192", "C">>]>>,
        <<[k |-> "first", c |-> <<"A", "+", "B", "->", "C">>]>>>>
    [] v = "qop" -> <<<<[k |-> "first", c |-> <<"\"a -> b\"">>]>>>>
    [] v = "tens3" -> <<<<[k |-> "first", c |-> <<"A", "U21CC", "B", "U21CC", "C">>]>>,
        <<[k |-> "first", c |-> <<"A", " ", "vs", " ", "B", " ", "vs", " ", "C">>]>>,
        <<[k |-> "first", c |-> <<"A", "<->", "B", "<->", "C">>]>>,
        <<[k |-> "first", c |-> <<"\"A", "U21CC", "B", "U21CC", "C\"">>]>>>>
    [] v = "syn3" -> <<<<[k |-> "first", c |-> <<"A", "U2295", "B", "U2295", "C">>]>>,
        <<[k |-> "first", c |-> <<"A", "+", "B", "+", "C">>]>>>>
    [] v = "slashes" -> <<<<[k |-> "first", c |-> <<"\"//cdn.example.com/lib.js\"">>]>>>>
    [] v = "slash2" -> <<<<[k |-> "first", c |-> <<"\"//\"">>]>>>>
    [] v = "relpath" -> <<<<[k |-> "first", c |-> <<"\"./a.py\"">>]>>>>
    [] v = "abspath" -> <<<<[k |-> "first", c |-> <<"\"/etc/hosts\"">>]>>>>
    [] v = "docpath" -> <<<<[k |-> "first", c |-> <<"docs/x.md">>]>>,
        <<[k |-> "first", c |-> <<"\"docs/x.md\"">>]>>>>
    [] v = "sjl" -> <<<<[k |-> "first", c |-> <<"\"[1, 2]\"">>]>>>>
    [] v = "sje" -> <<<<[k |-> "first", c |-> <<"\"[]\"">>]>>>>
    [] v = "sjo" -> <<<<[k |-> "first", c |-> <<"\"{}\"">>]>>>>
    [] v = "nlsp" -> <<<<[k |-> "first", c |-> <<"\"keeps its space \\nnext\"">>]>>,
        <<[k |-> "first", c |-> <<"@TQ", "\"\"\"keeps its space ">>], [k |-> "raw", c |-> <<"next\"\"\"">>]>>>>
    [] v = "nllead" -> <<<<[k |-> "first", c |-> <<"\"a\\n  b\"">>]>>,
        <<[k |-> "first", c |-> <<"@TQ", "\"\"\"a">>], [k |-> "raw", c |-> <<"  b\"\"\"">>]>>>>
    [] v = "ann" -> <<<<[k |-> "first", c |-> <<"ATHENA<wisdom>">>]>>>>
    [] v = "ctor1" -> <<<<[k |-> "first", c |-> <<"NEVER<A>">>]>>,
        <<[k |-> "first", c |-> <<"NEVER", "[", "A", "]">>]>>>>
    [] v = "ctor2" -> <<<<[k |-> "first", c |-> <<"NEVER<A,B>">>]>>,
        <<[k |-> "first", c |-> <<"NEVER", "[", "A", ",", "B", "]">>]>>>>
    [] v = "ctor0" -> <<<<[k |-> "first", c |-> <<"FOO<>">>]>>,
        <<[k |-> "first", c |-> <<"FOO", "[", "]">>]>>>>
    [] v = "catpath" -> <<<<[k |-> "first", c |-> <<"\"build", "U29FA", "/dist\"">>]>>,
        <<[k |-> "first", c |-> <<"build", "U29FA", "/dist">>]>>,
        <<[k |-> "first", c |-> <<"build", " ", "~", "/dist">>]>>,
        <<[k |-> "first", c |-> <<"build", "~", "/dist">>]>>>>
    [] v = "ctorop" -> <<<<[k |-> "first", c |-> <<"\"CHECK<lint", "U2227", "test>\"">>]>>,
        <<[k |-> "first", c |-> <<"CHECK", "[", "lint", "U2227", "test", "]">>]>>,
        <<[k |-> "first", c |-> <<"CHECK", "[", "lint", "&", "test", "]">>]>>>>
    [] v = "ctorops" -> <<<<[k |-> "first", c |-> <<"\"RULES<fast", "U2192", "safe,a", "U2228", "b>\"">>]>>,
        <<[k |-> "first", c |-> <<"RULES", "[", "fast", "U2192", "safe", ",", "a", "U2228", "b", "]">>]>>,
        <<[k |-> "first", c |-> <<"RULES", "[", "fast", "->", "safe", ",", "a", "|", "b", "]">>]>>>>
    [] v = "stageop" -> <<<<[k |-> "first", c |-> <<"\"STAGE[x", "U2228", "y]", "U2192", "DONE\"">>]>>,
        <<[k |-> "first", c |-> <<"STAGE", "[", "x", "U2228", "y", "]", "U2192", "DONE">>]>>,
        <<[k |-> "first", c |-> <<"STAGE", "[", "x", "|", "y", "]", "->", "DONE">>]>>>>
    [] v = "holo" -> <<<<[k |-> "first", c |-> <<"[", "\"x\"", "U2227", "REQ", "U2192", "U00A7", "T", "]">>]>>,
        <<[k |-> "first", c |-> <<"[", "\"x\"", "&", "REQ", "->", "#", "T", "]">>]>>,
        <<[k |-> "first", c |-> <<"[", " ", "\"x\"", " ", "U2227", " ", "REQ", " ", "U2192", " ", "U00A7", "T", " ", "]">>]>>,
        <<[k |-> "first", c |-> <<"[">>], [k |-> "rel", c |-> <<"  ", "\"x\"", "&", "REQ", "->", "#", "T">>], [k |-> "rel", c |-> <<"]">>]>>,
        <<[k |-> "first", c |-> <<"[">>], [k |-> "rel", c |-> <<"    ", "\"x\"", "U2227", "REQ", "U2192", "U00A7", "T">>], [k |-> "rel", c |-> <<"  ", "]">>]>>>>
    [] v = "holoenum" -> <<<<[k |-> "first", c |-> <<"[", "\"a\"", "U2227", "ENUM", "[", "a", ",", "b", "]", "]">>]>>,
        <<[k |-> "first", c |-> <<"[", "\"a\"", "&", "ENUM", "[", "a", ",", "b", "]", "]">>]>>>>
    [] v = "l0" -> <<<<[k |-> "first", c |-> <<"[", "]">>]>>,
        <<[k |-> "first", c |-> <<"[", " ", "]">>]>>>>
    [] v = "l1" -> <<<<[k |-> "first", c |-> <<"[", "a", "]">>]>>,
        <<[k |-> "first", c |-> <<"[", " ", "a", " ", "]">>]>>,
        <<[k |-> "first", c |-> <<"[", "a", ",", "]">>]>>>>
    [] v = "l2" -> <<<<[k |-> "first", c |-> <<"[", "a", ",", "b", "]">>]>>,
        <<[k |-> "first", c |-> <<"[", "a", ",", " ", "b", "]">>]>>,
        <<[k |-> "first", c |-> <<"[">>], [k |-> "rel", c |-> <<"  ", "a", ",">>], [k |-> "rel", c |-> <<"  ", "b">>], [k |-> "rel", c |-> <<"]">>]>>,
        <<[k |-> "first", c |-> <<"[", "a", ",", "b", ",", "]">>]>>>>
    [] v = "l3" -> <<<<[k |-> "first", c |-> <<"[">>], [k |-> "rel", c |-> <<"  ", "a", ",">>], [k |-> "rel", c |-> <<"  ", "b", ",">>], [k |-> "rel", c |-> <<"  ", "c">>], [k |-> "rel", c |-> <<"]">>]>>,
        <<[k |-> "first", c |-> <<"[", "a", ",", "b", ",", "c", "]">>]>>,
        <<[k |-> "first", c |-> <<"[", "a", ",">>], [k |-> "rel", c |-> <<"      ", "b", ",", "c", "]">>]>>>>
    [] v = "lnest" -> <<<<[k |-> "first", c |-> <<"[">>], [k |-> "rel", c |-> <<"  ", "[", "a", "]", ",">>], [k |-> "rel", c |-> <<"  ", "b">>], [k |-> "rel", c |-> <<"]">>]>>,
        <<[k |-> "first", c |-> <<"[", "[", "a", "]", ",", "b", "]">>]>>>>
    [] v = "lmatrix" -> <<<<[k |-> "first", c |-> <<"[">>], [k |-> "rel", c |-> <<"  ", "[">>], [k |-> "rel", c |-> <<"    ", "a", ",">>], [k |-> "rel", c |-> <<"    ", "b", ",">>], [k |-> "rel", c |-> <<"    ", "c">>], [k |-> "rel", c |-> <<"  ", "]", ",">>], [k |-> "rel", c |-> <<"  ", "[">>], [k |-> "rel", c |-> <<"    ", "d", ",">>], [k |-> "rel", c |-> <<"    ", "e", ",">>], [k |-> "rel", c |-> <<"    ", "f">>], [k |-> "rel", c |-> <<"  ", "]">>], [k |-> "rel", c |-> <<"]">>]>>,
        <<[k |-> "first", c |-> <<"[", "[", "a", ",", "b", ",", "c", "]", ",", "[", "d", ",", "e", ",", "f", "]", "]">>]>>>>
    [] v = "lmap" -> <<<<[k |-> "first", c |-> <<"[">>], [k |-> "rel", c |-> <<"  ", "k", "::", "1", ",">>], [k |-> "rel", c |-> <<"  ", "j", "::", "x">>], [k |-> "rel", c |-> <<"]">>]>>,
        <<[k |-> "first", c |-> <<"[", "k", "::", "1", ",", "j", "::", "x", "]">>]>>,
        <<[k |-> "first", c |-> <<"[", "k", " ", "::", " ", "1", ",", " ", "j", "::", "\"x\"", "]">>]>>>>
    [] v = "lfalsy" -> <<<<[k |-> "first", c |-> <<"[">>], [k |-> "rel", c |-> <<"  ", "k", "::", "false", ",">>], [k |-> "rel", c |-> <<"  ", "j", "::", "0">>], [k |-> "rel", c |-> <<"]">>]>>,
        <<[k |-> "first", c |-> <<"[", "k", "::", "false", ",", "j", "::", "0", "]">>]>>>>
    [] v = "lnullmap" -> <<<<[k |-> "first", c |-> <<"[">>], [k |-> "rel", c |-> <<"  ", "k", "::", "null">>], [k |-> "rel", c |-> <<"]">>]>>,
        <<[k |-> "first", c |-> <<"[", "k", "::", "null", "]">>]>>>>
    [] v = "lemptymap" -> <<<<[k |-> "first", c |-> <<"[">>], [k |-> "rel", c |-> <<"  ", "k", "::", "\"\"">>], [k |-> "rel", c |-> <<"]">>]>>,
        <<[k |-> "first", c |-> <<"[", "k", "::", "\"\"", "]">>]>>>>
    [] v = "lq" -> <<<<[k |-> "first", c |-> <<"[">>], [k |-> "rel", c |-> <<"  ", "\"x y\"", ",">>], [k |-> "rel", c |-> <<"  ", "42", ",">>], [k |-> "rel", c |-> <<"  ", "true", ",">>], [k |-> "rel", c |-> <<"  ", "null">>], [k |-> "rel", c |-> <<"]">>]>>,
        <<[k |-> "first", c |-> <<"[", "\"x y\"", ",", "42", ",", "true", ",", "null", "]">>]>>>>
    [] v = "ltq" -> <<<<[k |-> "first", c |-> <<"[">>], [k |-> "rel", c |-> <<"  ", "\"a\\nb\"", ",">>], [k |-> "rel", c |-> <<"  ", "X", "U2192", "Y", ",">>], [k |-> "rel", c |-> <<"  ", "\"hello there\"">>], [k |-> "rel", c |-> <<"]">>]>>,
        <<[k |-> "first", c |-> <<"[", "@TQ", "\"\"\"a">>], [k |-> "raw", c |-> <<"b\"\"\"", ",", " ", "X", "->", "Y", ",", " ", "\"hello there\"", "]">>]>>>>
    [] v = "lslash" -> <<<<[k |-> "first", c |-> <<"[", "\"//x\"", ",", "b", "]">>]>>,
        <<[k |-> "first", c |-> <<"[">>], [k |-> "rel", c |-> <<"  ", "\"//x\"", ",">>], [k |-> "rel", c |-> <<"  ", "b">>], [k |-> "rel", c |-> <<"]">>]>>>>
    [] v = "lexpr" -> <<<<[k |-> "first", c |-> <<"[", "A", "U2192", "B", ",", "C", "]">>]>>,
        <<[k |-> "first", c |-> <<"[", "A", "->", "B", ",", " ", "C", "]">>]>>>>
    [] v = "lann" -> <<<<[k |-> "first", c |-> <<"[">>], [k |-> "rel", c |-> <<"  ", "X<a>", ",">>], [k |-> "rel", c |-> <<"  ", "b">>], [k |-> "rel", c |-> <<"]">>]>>,
        <<[k |-> "first", c |-> <<"[", "X<a>", ",", "b", "]">>]>>>>
    [] v = "lpattern" -> <<<<[k |-> "first", c |-> <<"[">>], [k |-> "rel", c |-> <<"  ", "PATTERN", "::", "\"abc\"", ",">>], [k |-> "rel", c |-> <<"  ", "REGEX", "::", "\"a.*\"">>], [k |-> "rel", c |-> <<"]">>]>>,
        <<[k |-> "first", c |-> <<"[", "PATTERN", "::", "\"abc\"", ",", "REGEX", "::", "\"a.*\"", "]">>]>>>>
    [] v = "z1" -> <<<<[k |-> "first", c |-> <<>>], [k |-> "rel", c |-> <<"```">>], [k |-> "raw", c |-> <<"code here">>], [k |-> "rel", c |-> <<"```">>]>>>>
    [] v = "zpy" -> <<<<[k |-> "first", c |-> <<>>], [k |-> "rel", c |-> <<"```", "python">>], [k |-> "raw", c |-> <<"a -> b">>], [k |-> "raw", c |-> <<"  k::v # c">>], [k |-> "rel", c |-> <<"```">>]>>>>
    [] v = "z4" -> <<<<[k |-> "first", c |-> <<>>], [k |-> "rel", c |-> <<"````">>], [k |-> "raw", c |-> <<"```">>], [k |-> "raw", c |-> <<"===END===">>], [k |-> "rel", c |-> <<"````">>]>>>>
    [] v = "ztrail" -> <<<<[k |-> "first", c |-> <<>>], [k |-> "rel", c |-> <<"```">>], [k |-> "raw", c |-> <<"trail  ">>], [k |-> "raw", c |-> <<"tab", "U0009">>], [k |-> "rel", c |-> <<"```">>]>>>>
    [] v = "zseal" -> <<<<[k |-> "first", c |-> <<>>], [k |-> "rel", c |-> <<"```">>], [k |-> "raw", c |-> <<"U00A7", "SEAL::SEAL">>], [k |-> "raw", c |-> <<"  SCOPE::LINES[1,2]">>], [k |-> "raw", c |-> <<"  HASH::\"0000\"">>], [k |-> "rel", c |-> <<"```">>]>>>>
    [] v = "zoct" -> <<<<[k |-> "first", c |-> <<>>], [k |-> "rel", c |-> <<"```", "octave">>], [k |-> "raw", c |-> <<"===INNER===">>], [k |-> "raw", c |-> <<"K::v">>], [k |-> "raw", c |-> <<"===END===">>], [k |-> "rel", c |-> <<"```">>]>>>>
    [] v = "zmd" -> <<<<[k |-> "first", c |-> <<>>], [k |-> "rel", c |-> <<"```", "md">>], [k |-> "raw", c |-> <<"===INNER===">>], [k |-> "raw", c |-> <<"K::v">>], [k |-> "rel", c |-> <<"```">>]>>>>
    [] v = "zempty" -> <<<<[k |-> "first", c |-> <<>>], [k |-> "rel", c |-> <<"```">>], [k |-> "rel", c |-> <<"```">>]>>>>
    [] v = "ztab" -> <<<<[k |-> "first", c |-> <<>>], [k |-> "rel", c |-> <<"```", "txt">>], [k |-> "raw", c |-> <<"U0009", "x">>], [k |-> "raw", c |-> <<"cafe", "U0301">>], [k |-> "raw", c |-> <<"q\"\\n">>], [k |-> "rel", c |-> <<"```">>]>>>>
    [] v = "zblank3" -> <<<<[k |-> "first", c |-> <<>>], [k |-> "rel", c |-> <<"```">>], [k |-> "raw", c |-> <<"a  ">>], [k |-> "raw", c |-> <<>>], [k |-> "raw", c |-> <<>>], [k |-> "raw", c |-> <<>>], [k |-> "raw", c |-> <<"U00A7", "1::X">>], [k |-> "raw", c |-> <<"U00A7", "2::Y">>], [k |-> "rel", c |-> <<"```">>]>>>>
    [] v = "linf" -> <<<<[k |-> "first", c |-> <<"[", "1e999", ",", "1", ",", "-1e999", "]">>]>>,
        <<[k |-> "first", c |-> <<"[", "1e400", ",", "1", ",", "-1e400", "]">>]>>>>
    [] v = "l01" -> <<<<[k |-> "first", c |-> <<"[", "0", ",", "1", ",", "true", ",", "null", "]">>]>>>>
    [] v = "zblank" -> <<<<[k |-> "first", c |-> <<>>], [k |-> "rel", c |-> <<"```">>], [k |-> "raw", c |-> <<"x">>], [k |-> "raw", c |-> <<>>], [k |-> "raw", c |-> <<"---">>], [k |-> "rel", c |-> <<"```">>]>>>>

NSpell(v) == Len(Spell(v))
=============================================================================
