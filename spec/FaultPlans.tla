---------------------------- MODULE FaultPlans ----------------------------
(* Fault / crash plans over a call sequence of length N (C16): the reachable states are     *)
(*   - the empty plan (healthy run),                                                        *)
(*   - one fault of each errno at each call index,                                          *)
(*   - a kill before each call index,                                                       *)
(*   - when Pairs: a second fault (or a kill) at a later index, for errnos in PairErrnos.   *)
EXTENDS Naturals, Sequences, TLC, Json
CONSTANTS N, Errnos, Pairs, PairErrnos
VARIABLE plan        \* [faults |-> Seq([at, errno]), kill |-> 0..N]   (kill = 0: none)

Init == plan = [faults |-> <<>>, kill |-> 0]
Choose ==
  \/ /\ plan.faults = <<>> /\ plan.kill = 0
     /\ \/ \E j \in 1..N, e \in Errnos : plan' = [plan EXCEPT !.faults = <<[at |-> j, errno |-> e]>>]
        \/ \E j \in 1..N : plan' = [plan EXCEPT !.kill = j]
  \/ /\ Pairs /\ Len(plan.faults) = 1 /\ plan.kill = 0 /\ plan.faults[1].errno \in PairErrnos
     /\ \/ \E j \in (plan.faults[1].at + 1)..N, e \in PairErrnos : plan' = [plan EXCEPT !.faults = Append(@, [at |-> j, errno |-> e])]
        \/ \E j \in (plan.faults[1].at + 1)..N : plan' = [plan EXCEPT !.kill = j]
Next == Choose
EmitCase == PrintT(ToJson(plan))
=============================================================================
