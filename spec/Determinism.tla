---------------------------- MODULE Determinism ----------------------------
(* C06 - results depend only on the input.                                                       *)
(* A process is started under a configuration (hash seed, working directory, locale, schedule)    *)
(* and then serves calls one after another; whatever the implementation keeps between calls       *)
(* (tool instances, module-level caches, compiled patterns) is carried by the process.  A          *)
(* behaviour of this module is one process life: the configuration chosen at start and the order   *)
(* in which it serves the calls (each call Repeat times).  TLC enumerates the lives (exhaustively   *)
(* for small call sets, by simulation for the full set); the harness runs each life in a real       *)
(* interpreter and spec/Trace_Determinism.tla demands the same result for a call in every life.     *)
EXTENDS Naturals, Sequences, FiniteSets, TLC, Json

CONSTANTS Calls,      \* abstract call ids (tool : arguments), concretised by drivers/c06_worker.py
          Seeds,      \* PYTHONHASHSEED values ("random" included)
          Cwds,       \* working directories (ids)
          Locales,    \* LC_ALL / LANG settings (ids)
          Modes,      \* "seq" | "gather" (asyncio.gather batches) | "threads" (thread-pool batches)
          Repeat      \* how many times a life serves each call

VARIABLE ps           \* [seed, cwd, loc, mode, served]

Init == \E s \in Seeds, c \in Cwds, lc \in Locales, m \in Modes :
          ps = [seed |-> s, cwd |-> c, loc |-> lc, mode |-> m, served |-> <<>>]
Count(c) == Cardinality({j \in DOMAIN ps.served : ps.served[j] = c})
Serve(c) == /\ Count(c) < Repeat
            /\ ps' = [ps EXCEPT !.served = Append(@, c)]
Next == \E c \in Calls : Serve(c)
Done == \A c \in Calls : Count(c) = Repeat
EmitLife == IF Done THEN PrintT(ToJson(ps)) ELSE TRUE
=============================================================================
