---------------------------- MODULE CasWriters ----------------------------
(* C17 (b) - several writers on one path, each a process of its own.                        *)
(* Every writer follows the steps of WriteTool.execute / atomic_write_octave that touch the  *)
(* shared target:  stat (existence sampled once) ; read1 + compare ; [private: parse, emit,  *)
(* write temp file] ; read2 + compare (only with base_hash) ; replace.   Steps on private     *)
(* temp files commute with everything and are folded into the visible steps.                  *)
(* The model is FAITHFUL: read2 and replace are separate steps, as in the code.  With         *)
(* AtomicInstall = TRUE they are one step (what a lock would give).                           *)
EXTENDS Naturals, Sequences, FiniteSets, TLC, Json

CONSTANTS Writers,        \* e.g. {1, 2}
          HasBase,        \* [Writers -> BOOLEAN] : does the writer carry base_hash (= hash of the initial content)
          Norm,           \* writers in normalize mode: the code reads and compares the file a second time on entry
          WithExt,        \* an external program may rewrite the file once
          AtomicInstall
VARIABLES file,           \* version held by the target: 0 = initial content, w = writer w's content, 9 = external
          pc, res, sched, installs, extDone
vars == <<file, pc, res, sched, installs, extDone>>

HB_all == [w \in Writers |-> TRUE]          \* every writer carries the same base_hash
HB_first == [w \in Writers |-> w = 1]        \* only writer 1 carries base_hash

Init == /\ file = 0 /\ pc = [w \in Writers |-> "stat"] /\ res = [w \in Writers |-> "-"]
        /\ sched = <<>> /\ installs = <<>> /\ extDone = FALSE

Visible(w, s) == sched' = Append(sched, [w |-> w, s |-> s])

Stat(w) == /\ pc[w] = "stat" /\ pc' = [pc EXCEPT ![w] = "read1"] /\ Visible(w, "stat")
           /\ UNCHANGED <<file, res, installs, extDone>>
Read1(w) == /\ pc[w] = "read1" /\ Visible(w, "read1")
            /\ IF HasBase[w] /\ file # 0
               THEN pc' = [pc EXCEPT ![w] = "done"] /\ res' = [res EXCEPT ![w] = "E_HASH"]
               ELSE pc' = [pc EXCEPT ![w] = IF w \in Norm THEN "read1b" ELSE IF HasBase[w] THEN "read2" ELSE "replace"] /\ UNCHANGED res
            /\ UNCHANGED <<file, installs, extDone>>
(* normalize mode falls through the content-mode branch, which reads the file and compares once more *)
Read1b(w) == /\ pc[w] = "read1b" /\ Visible(w, "read1b")
             /\ IF HasBase[w] /\ file # 0
                THEN pc' = [pc EXCEPT ![w] = "done"] /\ res' = [res EXCEPT ![w] = "E_HASH"]
                ELSE pc' = [pc EXCEPT ![w] = IF HasBase[w] THEN "read2" ELSE "replace"] /\ UNCHANGED res
             /\ UNCHANGED <<file, installs, extDone>>
Install(w) == /\ installs' = Append(installs, [w |-> w, over |-> file, base |-> HasBase[w]])
              /\ file' = w /\ res' = [res EXCEPT ![w] = "ok"] /\ pc' = [pc EXCEPT ![w] = "done"]
Read2(w) == /\ pc[w] = "read2" /\ Visible(w, "read2")
            /\ IF file # 0
               THEN pc' = [pc EXCEPT ![w] = "done"] /\ res' = [res EXCEPT ![w] = "E_HASH"] /\ UNCHANGED <<file, installs>>
               ELSE IF AtomicInstall THEN Install(w)
               ELSE pc' = [pc EXCEPT ![w] = "replace"] /\ UNCHANGED <<file, res, installs>>
            /\ UNCHANGED extDone
Replace(w) == /\ pc[w] = "replace" /\ Visible(w, "replace") /\ Install(w) /\ UNCHANGED extDone
Ext == /\ WithExt /\ ~extDone /\ extDone' = TRUE /\ file' = 9 /\ sched' = Append(sched, [w |-> 0, s |-> "ext"])
       /\ UNCHANGED <<pc, res, installs>>

Next == Ext \/ \E w \in Writers : Stat(w) \/ Read1(w) \/ Read1b(w) \/ Read2(w) \/ Replace(w)

Done == \A w \in Writers : pc[w] = "done"
(* the properties *)
InstallOnlyOnMatch == \A i \in DOMAIN installs : installs[i].base => installs[i].over = 0
AtMostOneWinner == Cardinality({w \in Writers : HasBase[w] /\ res[w] = "ok"}) <= 1

EmitCase == IF Done THEN PrintT(ToJson([sched |-> sched, res |-> [w \in Writers |-> res[w]], final |-> file,
                                         model_ok |-> (InstallOnlyOnMatch /\ AtMostOneWinner)])) ELSE TRUE
=============================================================================
