---------------------------- MODULE AtomicWrite ----------------------------
(* Design model of the write procedure of WriteTool.execute / atomic_write_octave (C16):    *)
(* one step per file-system call, in the order and with the exception structure of          *)
(* src/octave_mcp/mcp/write.py (WRITE FILE block) and src/octave_mcp/core/file_ops.py.       *)
(* Any call may fail (Fault, at most MaxFaults times) and the process may die between any    *)
(* two calls (Die).  TLC checks in EVERY reachable state that the target holds its complete  *)
(* previous content or the complete new content.                                             *)
EXTENDS FileSys

CONSTANT MaxFaults
VARIABLES pc, fs, fds, faults, existed, excused, cas
vars == <<pc, fs, fds, faults, existed, excused, cas>>

NEWC == <<"NEW">>
OLDC == <<"OLD">>
OldMode == 416   \* 0640

(* the happy path, call by call; (if) = only when the file existed / base_hash is in force *)
Order == << "stat_entry", "read_base", "mkdir", "lstat_target", "stat_mode", "mkstemp", "fchmod", "write", "flush",
            "fsync", "close", "recheck", "rename", "ret_ok" >>
Skip(step) == \/ (step \in {"read_base", "stat_mode", "fchmod"} /\ ~existed)
              \/ (step = "recheck" /\ ~(cas /\ existed))
RECURSIVE NextStep(_)
NextStep(i) == IF Skip(Order[i]) THEN NextStep(i + 1) ELSE Order[i]
Index(step) == CHOOSE i \in DOMAIN Order : Order[i] = step
After(step) == NextStep(Index(step) + 1)

Init == /\ pc = "stat_entry" /\ faults = 0 /\ excused = FALSE /\ fds = [g \in {} |-> 0]
        /\ existed \in BOOLEAN /\ cas \in BOOLEAN
        /\ fs = [p \in {"target"} |-> IF existed THEN SFile(OLDC, OldMode, TRUE) ELSE Absent]

Effect(step) ==      \* <<fs', fds'>> of a successful call
  CASE step = "mkstemp" -> Mkstemp(fs, fds, "h", "tmp1")
    [] step = "fchmod"  -> Fchmod(fs, fds, "h", OldMode)
    [] step = "write"   -> Write(fs, fds, "h", "NEW")
    [] step = "flush"   -> Flush(fs, fds, "h")
    [] step = "fsync"   -> Fsync(fs, fds, "h")
    [] step = "close"   -> Close(fs, fds, "h")
    [] step = "rename"  -> Rename(fs, fds, "tmp1", "target")
    [] step = "c_unlink" -> Unlink(fs, fds, "tmp1")
    [] OTHER -> <<fs, fds>>

InTry == {"fchmod", "write", "flush", "fsync", "close", "recheck", "rename"}     \* inner try: temp file exists

Step == /\ pc \in {Order[i] : i \in DOMAIN Order} \ {"ret_ok"}
        /\ LET nx == Effect(pc) IN fs' = nx[1] /\ fds' = nx[2]
        /\ pc' = After(pc)
        /\ UNCHANGED <<faults, existed, excused, cas>>

(* a failing call: before the temp file exists -> error return; inside the inner try -> the with-block closes the file *)
(* (flushing what is buffered), then the cleanup handler probes and unlinks the temp file                              *)
Fault == /\ faults < MaxFaults
         /\ \/ /\ pc \in {"stat_entry", "mkdir", "lstat_target", "stat_mode", "mkstemp"}
               /\ pc' = "ret_error" /\ UNCHANGED <<fs, fds, excused>>
            \/ /\ pc = "read_base"                      \* the baseline read is best effort; with base_hash it then mismatches
               /\ pc' = (IF cas THEN "ret_error" ELSE After("read_base")) /\ UNCHANGED <<fs, fds, excused>>
            \/ /\ pc \in InTry
               /\ LET torn == IF pc \in {"flush", "close"} /\ "h" \in DOMAIN fds THEN CloseTorn(fs, fds, "h")
                              ELSE IF "h" \in DOMAIN fds THEN Close(fs, fds, "h") ELSE <<fs, fds>>
                  IN fs' = torn[1] /\ fds' = torn[2]
               /\ pc' = "c_exists" /\ UNCHANGED excused
            \/ /\ pc = "c_exists" /\ pc' = "ret_error" /\ excused' = TRUE /\ UNCHANGED <<fs, fds>>   \* os.path.exists() -> False
            \/ /\ pc = "c_unlink" /\ pc' = "ret_error" /\ excused' = TRUE /\ UNCHANGED <<fs, fds>>
         /\ faults' = faults + 1 /\ UNCHANGED <<existed, cas>>

Cleanup == \/ /\ pc = "c_exists" /\ pc' = "c_unlink" /\ UNCHANGED <<fs, fds, faults, existed, excused, cas>>
           \/ /\ pc = "c_unlink" /\ LET nx == Effect("c_unlink") IN fs' = nx[1] /\ fds' = nx[2]
              /\ pc' = "ret_error" /\ UNCHANGED <<faults, existed, excused, cas>>

(* the re-check finds another writer's content: unlink the temp file, return E_HASH *)
Mismatch == /\ pc = "recheck" /\ LET nx == Unlink(fs, fds, "tmp1") IN fs' = nx[1] /\ fds' = nx[2]
            /\ pc' = "ret_error" /\ UNCHANGED <<faults, existed, excused, cas>>

Die == /\ pc \notin {"ret_ok", "ret_error", "dead"}
       /\ LET nx == Kill(fs, fds) IN fs' = nx[1] /\ fds' = nx[2]
       /\ pc' = "dead" /\ UNCHANGED <<faults, existed, excused, cas>>

Next == Step \/ Fault \/ Cleanup \/ Mismatch \/ Die

OldState == IF existed THEN "OLD" ELSE "ABSENT"
Atomic == Holds(fs, "target", OLDC, NEWC) \in {OldState, "NEW"}
(* power loss instead of process death: at no point does the target name refer to data still in the page cache only *)
DurableInstall == Durable(fs, "target") \/ Holds(fs, "target", OLDC, NEWC) = "TORN"    \* TORN is Atomic's business
ErrorClean == pc = "ret_error" => /\ Holds(fs, "target", OLDC, NEWC) = OldState
                                  /\ (excused \/ {p \in TmpFiles(fs) : fs[p].k = "file"} = {})
SuccessExact == pc = "ret_ok" => /\ Holds(fs, "target", OLDC, NEWC) = "NEW"
                                 /\ (existed => fs["target"].mode = OldMode)
TypeOK == faults \in 0..MaxFaults /\ pc \in {Order[i] : i \in DOMAIN Order} \cup {"ret_error", "dead", "c_exists", "c_unlink"}
=============================================================================
