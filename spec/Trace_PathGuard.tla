---------------------------- MODULE Trace_PathGuard ----------------------------
(* Trace validation for C19: one record = one path (or URI) handed to every route over the    *)
(* materialised layout; observed per route: was it refused, which files were opened / created *)
(* / replaced (classified by their RESOLVED location), did anything in the tree change, did    *)
(* the secret's text appear in the reply.                                                      *)
EXTENDS PathGuard, IOUtils
Trace == ndJsonDeserialize(IOEnv.TRACE_FILE)
VARIABLE l

RouteFails(q, o) ==
  (IF MustRefuse(q) /\ ~DontCare(q)
   THEN (IF o.refused THEN {} ELSE {"RefusedEarly:accepted:" \o o.route})
        \cup (IF o.touched = 0 THEN {} ELSE {"RefusedEarly:file_touched:" \o o.route})
        \cup (IF o.changed THEN {"RefusedEarly:fs_changed:" \o o.route} ELSE {})
   ELSE {})
  \cup (IF o.outside = 0 THEN {} ELSE {"Confined:outside_file_touched:" \o o.route})
  \cup (IF o.leak THEN {"Confined:secret_in_reply:" \o o.route} ELSE {})
  \cup (IF o.outside_changed THEN {"Confined:outside_changed:" \o o.route} ELSE {})

UriFails(q, o) ==     \* validate_source_uri / check_staleness: never resolves outside its base
  (IF o.returned_outside THEN {"UriConfined:returned:" \o o.route} ELSE {})
  \cup (IF o.outside = 0 THEN {} ELSE {"UriConfined:outside_file_touched:" \o o.route})

FailsOf(r) == UNION {IF r.space = "paths" THEN RouteFails(r.case, r.obs[j]) ELSE UriFails(r.case, r.obs[j]) : j \in DOMAIN r.obs}
Judge(r) == LET f == FailsOf(r) IN IF f = {} THEN TRUE ELSE PrintT(ToJson([i |-> r.i, fails |-> f]))
TInit == l = 1 /\ p = [abs |-> FALSE, segs |-> <<>>]
TNext == l <= Len(Trace) /\ Judge(Trace[l]) /\ l' = l + 1 /\ UNCHANGED p
TAccepted == TLCGet("stats").diameter - 1 = Len(Trace)
=============================================================================
