"""Thin wrapper around TLC: run a model, collect statistics, coverage, emitted cases and verdicts.

Conventions used by every specification under /verif/spec:

* a generator model emits each finished case with an always-true invariant
      EmitCase == IF Done THEN PrintT(ToJson(caseRecord)) ELSE TRUE
  TLC prints the JSON text as a TLA+ string literal, one per line, so each such line starts with
  `"{` and is decoded with json.loads(json.loads(line)).
* a trace specification prints one line `"{"i":..,"fails":[..]}"` per rejected record (same
  encoding) and its POSTCONDITION checks that every record of the trace was consumed.
"""
from __future__ import annotations

import json
import os
import re
import shutil
import subprocess
import time
from dataclasses import dataclass, field
from pathlib import Path

JAR = "/opt/veriftools/tla/tla2tools.jar"
DEPS = "/opt/veriftools/tla/CommunityModules-deps.jar"
SPEC_DIR = Path(__file__).resolve().parent.parent / "spec"


class TLCError(RuntimeError):
    """TLC itself failed (parse error, evaluation error, timeout): machinery trouble, exit 2."""


@dataclass
class TLCResult:
    rc: int
    generated: int = 0
    distinct: int = 0
    depth: int = 0
    wall_s: float = 0.0
    coverage: dict = field(default_factory=dict)  # action -> [distinct, total]
    out_path: str = ""
    violated: list = field(default_factory=list)  # names of violated invariants / properties
    postcondition_ok: bool = True
    tail: str = ""

    def payload_lines(self):
        """Yield decoded JSON payloads printed with PrintT(ToJson(..))."""
        with open(self.out_path, "r", encoding="utf-8", errors="replace") as f:
            for line in f:
                if line.startswith('"{') or line.startswith('"['):
                    try:
                        yield json.loads(json.loads(line))
                    except Exception as e:  # pragma: no cover - machinery
                        raise TLCError(f"undecodable payload line in {self.out_path}: {line[:200]!r}: {e}")


_STATS = re.compile(r"^(\d+) states generated, (\d+) distinct states found")
_DEPTH = re.compile(r"^The depth of the complete state graph search is (\d+)")
_COV = re.compile(r"^<(\w+) line \d+, col \d+ to line \d+, col \d+ of module (\w+)(?: \([\d ]+\))?>: (\d+):(\d+)")
_INV = re.compile(r"^Error: Invariant (\w+) is violated")
_PROP = re.compile(r"^Error: (?:Action|Temporal) property (\w+) is violated|^Error: Temporal properties were violated")
_SIMSTATS = re.compile(r"^The number of states generated: (\d+)")


def write_cfg(path, *, init="Init", next_="Next", spec=None, constants=None, invariants=(), properties=(),
              constraints=(), action_constraints=(), postcondition=None, deadlock=False, view=None, symmetry=None):
    lines = []
    if spec:
        lines.append(f"SPECIFICATION {spec}")
    else:
        lines.append(f"INIT {init}")
        lines.append(f"NEXT {next_}")
    if constants:
        lines.append("CONSTANTS")
        for k, v in constants.items():
            if isinstance(v, str) and v.startswith("@"):
                lines.append(f"  {k} <- {v[1:]}")       # substitution by a definition of the module
            else:
                lines.append(f"  {k} = {tla_literal(v)}")
    for inv in invariants:
        lines.append(f"INVARIANT {inv}")
    for p in properties:
        lines.append(f"PROPERTY {p}")
    for c in constraints:
        lines.append(f"CONSTRAINT {c}")
    for c in action_constraints:
        lines.append(f"ACTION_CONSTRAINT {c}")
    if postcondition:
        lines.append(f"POSTCONDITION {postcondition}")
    if view:
        lines.append(f"VIEW {view}")
    if symmetry:
        lines.append(f"SYMMETRY {symmetry}")
    lines.append(f"CHECK_DEADLOCK {'TRUE' if deadlock else 'FALSE'}")
    Path(path).write_text("\n".join(lines) + "\n")
    return path


def tla_literal(v):
    """Python value -> TLA+ literal usable in a cfg file (ints, bools, strings, sets, tuples)."""
    if isinstance(v, bool):
        return "TRUE" if v else "FALSE"
    if isinstance(v, int):
        if v < 0:
            raise ValueError("cfg files cannot hold negative numbers; use a named definition")
        return str(v)
    if isinstance(v, str):
        if v.startswith("@"):  # raw TLA+ text / model value
            return v[1:]
        return '"' + v.replace("\\", "\\\\").replace('"', '\\"') + '"'
    if isinstance(v, (set, frozenset)):
        return "{" + ", ".join(tla_literal(x) for x in sorted(v, key=repr)) + "}"
    if isinstance(v, (list, tuple)):
        return "<<" + ", ".join(tla_literal(x) for x in v) + ">>"
    raise TypeError(f"no TLA+ literal for {type(v)}")


def run_tlc(module, cfg, *, scratch, tag, workers=16, env=None, timeout=1800, simulate=None, depth=None,
            seed=None, coverage=True, deadlock_off=True, dfs=False, extra=(), allow_violation=False, heap="4g"):
    """Run TLC on spec/<module>.tla with config file `cfg` (absolute path). Returns TLCResult.

    Raises TLCError on anything that is not a clean completion or (when allowed) a property violation.
    """
    scratch = Path(scratch)
    metadir = scratch / f"meta_{tag}"
    if metadir.exists():
        shutil.rmtree(metadir, ignore_errors=True)
    metadir.mkdir(parents=True, exist_ok=True)
    out_path = scratch / f"tlc_{tag}.out"
    java = ["java", "-XX:+UseParallelGC", f"-Xmx{heap}", "-Xss128m", "-Dfile.encoding=UTF-8"]   # deep recursive operators (token walks)
    if dfs:
        java.append("-Dtlc2.tool.queue.IStateQueue=StateDeque")
    cmd = java + ["-cp", f"{JAR}:{DEPS}", "tlc2.TLC", "-workers", str(workers), "-metadir", str(metadir),
                  "-noGenerateSpecTE", "-config", str(cfg)]
    if coverage and not simulate:
        cmd += ["-coverage", "1"]
    if deadlock_off:
        cmd += ["-deadlock"]
    if simulate:
        cmd += ["-simulate", simulate]
        if depth:
            cmd += ["-depth", str(depth)]
        if seed is not None:
            cmd += ["-seed", str(seed)]
    cmd += list(extra)
    cmd.append(str(SPEC_DIR / f"{module}.tla"))
    full_env = dict(os.environ)
    full_env.pop("JAVA_TOOL_OPTIONS", None)
    if env:
        full_env.update({k: str(v) for k, v in env.items()})
    t0 = time.time()
    with open(out_path, "w") as out:
        try:
            p = subprocess.run(cmd, stdout=out, stderr=subprocess.STDOUT, env=full_env, timeout=timeout,
                               cwd=str(SPEC_DIR))
        except subprocess.TimeoutExpired:
            raise TLCError(f"TLC timed out after {timeout}s on {module} ({tag}); output in {out_path}")
    res = TLCResult(rc=p.returncode, out_path=str(out_path), wall_s=time.time() - t0)
    tail = []
    with open(out_path, "r", encoding="utf-8", errors="replace") as f:
        for line in f:
            if line.startswith('"'):
                continue
            tail.append(line)
            if len(tail) > 60:
                tail.pop(0)
            m = _STATS.match(line)
            if m:
                res.generated, res.distinct = int(m.group(1)), int(m.group(2))
                continue
            m = _SIMSTATS.match(line)
            if m:
                res.generated = res.distinct = int(m.group(1))
                continue
            m = _DEPTH.match(line)
            if m:
                res.depth = int(m.group(1))
                continue
            m = _COV.match(line)
            if m:
                name = m.group(1)
                cur = res.coverage.get(name, [0, 0])
                res.coverage[name] = [max(cur[0], int(m.group(3))), max(cur[1], int(m.group(4)))]
                continue
            m = _INV.match(line)
            if m:
                res.violated.append(m.group(1))
                continue
            if _PROP.match(line):
                res.violated.append(line.strip())
                continue
            if "is violated" in line and "ostcondition" in line or "Postcondition" in line and "false" in line.lower():
                res.postcondition_ok = False
    res.tail = "".join(tail)
    if p.returncode not in (0, 12, 13):
        # keep the first error block: it names the failing expression
        errs = []
        with open(out_path, "r", encoding="utf-8", errors="replace") as f:
            grab = 0
            for line in f:
                if line.startswith("Error:") or line.startswith("The exception was"):
                    grab = 8
                if grab > 0 and not line.startswith('"'):
                    errs.append(line)
                    grab -= 1
                if len(errs) > 40:
                    break
        res.tail = "".join(errs) + "\n...\n" + res.tail[-600:]
    shutil.rmtree(metadir, ignore_errors=True)
    ok_codes = {0}
    if allow_violation:
        ok_codes |= {12, 13}
    if p.returncode not in ok_codes:
        if not res.postcondition_ok:
            raise TLCError(f"trace not fully consumed (postcondition false) in {module} ({tag}); see {out_path}\n{res.tail[-1500:]}")
        raise TLCError(f"TLC exit {p.returncode} on {module} ({tag}); see {out_path}\n{res.tail[-2500:]}")
    return res


def sany(module_path):
    p = subprocess.run(["java", "-cp", f"{JAR}:{DEPS}", "tla2sany.SANY", str(module_path)],
                       stdout=subprocess.PIPE, stderr=subprocess.STDOUT, text=True, cwd=str(SPEC_DIR))
    ok = p.returncode == 0 and "Semantic errors" not in p.stdout and "Parse Error" not in p.stdout \
        and "*** Errors" not in p.stdout and "Fatal errors" not in p.stdout
    return ok, p.stdout
