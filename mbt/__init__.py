"""Model-based testing engine: TLC runner, trace validation, evidence, known findings."""
