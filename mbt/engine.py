"""Check pipeline shared by all properties.

model run (TLC generator / design model) -> replay into /repo -> trace validation (TLC) ->
classification against known_findings.json -> evidence file.
"""
from __future__ import annotations

import concurrent.futures as cf
import hashlib
import json
import multiprocessing as mp
import os
import shutil
import sys
import tempfile
import time
import traceback
from pathlib import Path

from . import tlc

ROOT = Path(__file__).resolve().parent.parent
EVIDENCE_DIR = Path(os.environ.get("VERIF_EVIDENCE_DIR") or (ROOT / "evidence"))
REPLAY_DIR = Path(os.environ["VERIF_EVIDENCE_DIR"]) / "replays" if os.environ.get("VERIF_EVIDENCE_DIR") else ROOT / "replays"
KNOWN_FILE = ROOT / "known_findings.json"
NCPU = min(16, os.cpu_count() or 4)


class Machinery(RuntimeError):
    """Anything that is the framework's fault: reported with exit code 2, never as a violation."""


class Ctx:
    def __init__(self, prop, tier="quick", seed=0, replay=None, keep=False):
        self.prop = prop
        self.tier = tier
        self.seed = seed
        self.replay = replay
        self.keep = keep
        self.t0 = time.time()
        base = os.environ.get("VERIF_SCRATCH", "/var/tmp")
        self.scratch = Path(tempfile.mkdtemp(prefix=f"octave-verif.{prop}.", dir=base))
        # every scratch directory a driver or one of its workers makes goes under this run's own directory, so that concurrent runs
        # (of the same check, too) cannot see or clean up each other's files
        os.environ["VERIF_SCRATCH"] = str(self.scratch)
        self.model_runs = []  # TLCResult summaries
        self.details = {}     # i -> full payload printed by the trace specification for a rejected record
        self.trace_records = 0
        self.trace_runs = 0
        self.notes = []

    @property
    def thorough(self):
        return self.tier == "thorough"

    def cleanup(self):
        if not self.keep:
            shutil.rmtree(self.scratch, ignore_errors=True)

    # ------------------------------------------------------------------ model runs
    def model(self, module, *, tag=None, constants=None, invariants=(), properties=(), constraints=(),
              init="Init", next_="Next", spec=None, simulate=None, depth=None, workers=NCPU, timeout=1800,
              required_actions=(), allow_violation=False, view=None, env=None, seed=None, heap="4g",
              action_constraints=()):
        tag = tag or module
        cfg = self.scratch / f"{tag}.cfg"
        tlc.write_cfg(cfg, init=init, next_=next_, spec=spec, constants=constants, invariants=invariants,
                      properties=properties, constraints=constraints, view=view,
                      action_constraints=action_constraints)
        res = tlc.run_tlc(module, cfg, scratch=self.scratch, tag=tag, workers=workers, timeout=timeout,
                          simulate=simulate, depth=depth, seed=self.seed if seed is None else seed,
                          allow_violation=allow_violation, env=env, heap=heap)
        if res.violated and not allow_violation:
            raise Machinery(f"in-model invariant violated in {module}: {res.violated}\n{res.tail[-2000:]}")
        for a in required_actions:
            if not simulate and res.coverage.get(a, [0, 0])[1] == 0:
                raise Machinery(f"vacuous model run: action {a} of {module} never taken (coverage {res.coverage})")
        self.model_runs.append({"module": module, "tag": tag, "states_generated": res.generated,
                                "distinct_states": res.distinct, "depth": res.depth,
                                "mode": "simulate" if simulate else "exhaustive",
                                "constants": _jsonable(constants or {}), "invariants": list(invariants),
                                "properties": list(properties), "violated": res.violated,
                                "coverage": res.coverage, "wall_s": round(res.wall_s, 2)})
        return res

    # ------------------------------------------------------------------ trace validation
    def validate(self, module, records, *, shards=NCPU, constants=None, tag=None, timeout=1800, per_shard=None,
                 stateful_key=None, heap="3g"):
        """Validate trace records with spec/<module>.tla. Each record needs a unique integer field 'i'.

        Returns {i: [failed clause names]} for the rejected records. Raises Machinery when a shard
        was not consumed completely or TLC failed.
        """
        tag = tag or module
        records = list(records)
        if not records:
            return {}
        if stateful_key:
            # keep records of one trace in one shard
            groups = {}
            for r in records:
                groups.setdefault(r[stateful_key], []).append(r)
            glist = list(groups.values())
            nsh = max(1, min(shards, len(glist)))
            buckets = [[] for _ in range(nsh)]
            sizes = [0] * nsh
            for g in sorted(glist, key=len, reverse=True):
                j = sizes.index(min(sizes))
                buckets[j].extend(g)
                sizes[j] += len(g)
        else:
            nsh = max(1, min(shards, (len(records) + 199) // 200))
            if per_shard:
                nsh = max(nsh, (len(records) + per_shard - 1) // per_shard)
            buckets = [records[j::nsh] for j in range(nsh)]
        cfg = self.scratch / f"{tag}.trace.cfg"
        tlc.write_cfg(cfg, init="TInit", next_="TNext", constants=constants, postcondition="TAccepted")
        # binding self-test (tools/binding_selftest.sh): VERIF_SELFTEST=flip:<k> corrupts one observed field of the k-th record of the
        # first validation (must come back as a VIOLATION), VERIF_SELFTEST=drop:<k> removes that record from its shard after the
        # count was taken (must come back as a machinery failure: trace not fully consumed)
        st = os.environ.get("VERIF_SELFTEST", "") if not getattr(self, "_selftest_done", False) else ""
        drop = None
        if st:
            self._selftest_done = True
            mode, _, k = st.partition(":")
            b0 = next(b for b in buckets if b)
            k = min(int(k or 0), len(b0) - 1)
            if mode in ("flip", "flipall"):
                b0[k] = json.loads(json.dumps(b0[k]))
                if not _corrupt(b0[k], every=(mode == "flipall")):
                    raise Machinery("selftest: nothing to corrupt in record %r" % b0[k])
            elif mode == "drop":
                drop = b0[k]["i"]
        jobs = []
        for j, b in enumerate(buckets):
            if not b:
                continue
            path = self.scratch / f"{tag}.shard{j}.ndjson"
            with open(path, "w") as f:
                for r in b:
                    if drop is not None and r["i"] == drop:
                        continue
                    f.write(json.dumps(r, ensure_ascii=True, separators=(",", ":")))
                    f.write("\n")
            jobs.append((j, path, len(b)))
        fails = {}

        def run(job):
            j, path, n = job
            res = tlc.run_tlc(module, cfg, scratch=self.scratch, tag=f"{tag}.trace{j}", workers=1, timeout=timeout,
                              env={"TRACE_FILE": str(path)}, coverage=False, heap=heap)
            out = {}
            for p in res.payload_lines():
                out[int(p["i"])] = sorted(p["fails"])
                self.details[int(p["i"])] = p
            if not res.depth or res.depth - 1 != n:
                raise Machinery(f"trace shard {path} not fully consumed: depth {res.depth} vs {n} records")
            return out, n, res

        with cf.ThreadPoolExecutor(max_workers=NCPU) as ex:
            for out, n, res in ex.map(run, jobs):
                fails.update(out)
                self.trace_records += n
                self.trace_runs += 1
        return fails


def _corrupt(rec, every=False):
    """flip the first boolean / alter the first string found under the observation part of a trace record (depth first);
    every=True: all of them except the keys that switch judging off (accepted / ok)"""
    hit = [0]

    def walk(x):
        it = list(x.items()) if isinstance(x, dict) else list(enumerate(x))
        for k, v in it:
            if every and k in ("accepted", "ok", "read_ok"):
                continue
            if isinstance(v, bool):
                x[k] = not v
                hit[0] += 1
            elif isinstance(v, str) and v not in ("", "-"):
                x[k] = v + "~"
                hit[0] += 1
            elif isinstance(v, (dict, list)):
                walk(v)
            if hit[0] and not every:
                return

    for key in ("obs", "parts", "observed", "res"):
        if key in rec and isinstance(rec[key], (dict, list)):
            walk(rec[key])
            if hit[0]:
                return True
    for key in rec:
        if key not in ("i", "case", "step", "tid") and isinstance(rec[key], bool):
            rec[key] = not rec[key]
            return True
    return False


def _jsonable(x):
    if isinstance(x, dict):
        return {k: _jsonable(v) for k, v in x.items()}
    if isinstance(x, (set, frozenset)):
        return sorted(_jsonable(v) for v in x)
    if isinstance(x, (list, tuple)):
        return [_jsonable(v) for v in x]
    return x


# ---------------------------------------------------------------------- parallel replay
def _worker_init(src):
    if src:
        sys.path.insert(0, src)
    os.environ.setdefault("PYTHONHASHSEED", "0")


def _run_chunk(args):
    func, chunk = args
    out = []
    for item in chunk:
        try:
            out.append(func(item))
        except Exception:
            raise Machinery("driver failed on case %r:\n%s" % (item, traceback.format_exc()))
    return out


def parallel_map(func, items, chunk=200, procs=NCPU):
    """Ordered map over worker processes (fork). func must be a module-level function."""
    items = list(items)
    if len(items) <= chunk or procs == 1:
        return _run_chunk((func, items))
    chunks = [items[i:i + chunk] for i in range(0, len(items), chunk)]
    ctx = mp.get_context("fork")
    out = []
    with ctx.Pool(procs, initializer=_worker_init, initargs=(os.environ.get("OCTAVE_SRC"),)) as pool:
        for part in pool.imap(_run_chunk, [(func, c) for c in chunks]):
            out.extend(part)
    return out


# ---------------------------------------------------------------------- known findings
def load_known(prop):
    if not KNOWN_FILE.exists():
        return []
    data = json.loads(KNOWN_FILE.read_text())
    return [f for f in data.get("findings", []) if f["property"] == prop]


def classify(prop, failures, matchers):
    """failures: list of dict(i, case, obs, fails). matchers: {finding_id: predicate(failure, clause)}.

    Returns (known: {finding_id: [failure..]}, unknown: [(failure, clause)]).
    """
    known_defs = [f for f in load_known(prop) if f.get("status") == "open"]
    known, unknown = {}, []
    for fl in failures:
        for clause in fl["fails"]:
            hit = None
            for kd in known_defs:
                if clause not in kd.get("clauses", [kd.get("clause")]):
                    continue
                pred = matchers.get(kd["id"])
                if pred is None:
                    continue
                try:
                    if pred(fl, clause):
                        hit = kd["id"]
                        break
                except Exception:
                    raise Machinery("known-finding matcher %s crashed:\n%s" % (kd["id"], traceback.format_exc()))
            if hit:
                known.setdefault(hit, []).append(fl)
            else:
                unknown.append((fl, clause))
    return known, unknown


def write_replay(prop, failure, clause):
    d = REPLAY_DIR / prop
    d.mkdir(parents=True, exist_ok=True)
    body = {"property": prop, "clause": clause, "case": failure.get("case"), "obs": failure.get("obs"),
            "fails": failure.get("fails")}
    txt = json.dumps(body, ensure_ascii=True, sort_keys=True, indent=1)
    sha = hashlib.sha256(txt.encode()).hexdigest()[:16]
    p = d / f"{sha}.json"
    p.write_text(txt)
    return p


def report(ctx, *, failures, matchers, evaluations, distinct_nontrivial, rule, samples, assumptions,
           exhaustive, extra_coverage=None, max_lines=25, descr=None):
    """Classify, print KNOWN-FINDING / VIOLATION lines, write evidence, return exit code."""
    known, unknown = classify(ctx.prop, failures, matchers)
    if ctx.replay:
        # --replay <file>: the same exploration is run again (the generators are deterministic, so the case is re-enumerated) and only
        # the recorded (case, clause) is decided: exit 1 and the VIOLATION line if it still fails, exit 0 otherwise; evidence untouched
        want = json.loads(Path(ctx.replay).read_text())
        wcase = json.dumps(want.get("case"), sort_keys=True)
        hit = [(fl, cl) for fl, cl in unknown if cl == want.get("clause") and json.dumps(fl.get("case"), sort_keys=True) == wcase]
        for fl, cl in hit[:1]:
            d = (" " + descr(fl, cl)) if descr else ""
            print(f"VIOLATION property={ctx.prop} replay={ctx.replay} clause={cl}{d}")
        print(f"{ctx.prop} replay: recorded case {'still fails' if hit else 'no longer fails'} ({want.get('clause')}); {round(time.time() - ctx.t0, 2)}s")
        return 1 if hit else 0
    if os.environ.get("VERIF_DUMP_FAILS"):
        with open(os.environ["VERIF_DUMP_FAILS"], "w") as f:
            for fl, clause in unknown:
                f.write(json.dumps({"clause": clause, "case": fl.get("case"), "obs": fl.get("obs")}) + "\n")
    kdefs = {f["id"]: f for f in load_known(ctx.prop)}
    for fid, fls in sorted(known.items()):
        w = kdefs[fid].get("what", kdefs[fid].get("description", ""))
        print(f"KNOWN-FINDING: property={ctx.prop} {fid}: {w} [{len(fls)} explored case(s) hit it]")
    seen = set()
    nviol = 0
    for fl, clause in unknown:
        key = (clause, json.dumps(fl.get("case"), sort_keys=True))
        if key in seen:
            continue
        seen.add(key)
        nviol += 1
        if nviol <= max_lines:
            p = write_replay(ctx.prop, fl, clause)
            d = (" " + descr(fl, clause)) if descr else ""
            print(f"VIOLATION property={ctx.prop} replay={p} clause={clause}{d}")
    if nviol > max_lines:
        print(f"... {nviol - max_lines} further violating cases not listed")
    states = sum(r["distinct_states"] for r in ctx.model_runs)
    trans = sum(r["states_generated"] for r in ctx.model_runs)
    cov = {
        "states": max(states, 1),
        "transitions": max(trans, 1),
        "traces_validated_against_impl": ctx.trace_records,
        "samples": samples[:6] if samples else [{"note": "no case produced"}],
        "evaluations": int(evaluations),
        "distinct_nontrivial": int(distinct_nontrivial),
        "rule": rule,
        "exhaustive": bool(exhaustive),
        "model_runs": ctx.model_runs,
        "trace_validation_runs": ctx.trace_runs,
        "known_findings_hit": {k: len(v) for k, v in known.items()},
        "unattributed_failures": nviol,
    }
    if extra_coverage:
        cov.update(extra_coverage)
    ev = {
        "property_id": ctx.prop,
        "tier": ctx.tier,
        "seed": int(ctx.seed),
        "level": "model_checking",
        "coverage": cov,
        "assumptions": list(assumptions) + ctx.notes,
        "wall_s": round(time.time() - ctx.t0, 2),
        "violations": nviol,
    }
    EVIDENCE_DIR.mkdir(parents=True, exist_ok=True)
    (EVIDENCE_DIR / f"{ctx.prop}.json").write_text(json.dumps(ev, indent=1, ensure_ascii=True, sort_keys=True))
    print(f"{ctx.prop} {ctx.tier}: model states={states} transitions={trans}; impl evaluations={evaluations}; "
          f"trace records validated={ctx.trace_records}; known={sum(len(v) for v in known.values())} "
          f"violations={nviol}; {ev['wall_s']}s")
    return 1 if nviol else 0


# ---------------------------------------------------------------------- text helpers shared by drivers
def enc(s):
    """Text -> ASCII-only text in which every non-ASCII or control character c is written {Uxxxx}.

    `{` itself is written {U007B} so the encoding is injective."""
    out = []
    for ch in s:
        o = ord(ch)
        if 32 <= o < 127 and ch != "{":
            out.append(ch)
        else:
            out.append("{U%04X}" % o)
    return "".join(out)


def dec(s):
    out = []
    i = 0
    while i < len(s):
        if s[i] == "{" and s[i + 1:i + 2] == "U":
            j = s.index("}", i)
            out.append(chr(int(s[i + 2:j], 16)))
            i = j + 1
        else:
            out.append(s[i])
            i += 1
    return "".join(out)


def chars(s):
    """Text -> list of one-character atoms (ASCII printable as themselves, others as Uxxxx names)."""
    out = []
    for ch in s:
        o = ord(ch)
        if 32 <= o < 127:
            out.append(ch)
        else:
            out.append("U%04X" % o)
    return out


# ---------------------------------------------------------------------- parallel map with a hang watchdog (C20)
def _guard_child(func, chunk, conn, src):
    _worker_init(src)
    try:
        conn.send(("done", [func(x) for x in chunk]))
    except Exception:
        conn.send(("error", traceback.format_exc()))
    finally:
        conn.close()


def guarded_map(func, items, *, chunk=100, procs=NCPU, chunk_timeout=120, item_timeout=20, on_hang=None, max_hung_chunks=2, on_skip=None):
    """Ordered map; every chunk runs in a process of its own with a private pipe (no shared queue that a killed worker could
    corrupt).  A chunk that does not finish within chunk_timeout is killed and its items are re-run one by one with item_timeout
    up to the first one that hangs (on_hang(item) supplies its result, on_skip(item) that of items not run).  After
    max_hung_chunks hanging chunks the rest of the space is skipped: the code under test hangs."""
    items = list(items)
    chunks = [items[i:i + chunk] for i in range(0, len(items), chunk)]
    ctx = mp.get_context("fork")
    src = os.environ.get("OCTAVE_SRC")
    results, hung = {}, []
    running = {}              # cid -> (process, conn, t0)
    nxt = 0
    while len(results) + len(hung) < len(chunks):
        while nxt < len(chunks) and len(running) < procs and len(hung) < max_hung_chunks:
            parent, child = ctx.Pipe(duplex=False)
            p = ctx.Process(target=_guard_child, args=(func, chunks[nxt], child, src), daemon=True)
            p.start()
            child.close()
            running[nxt] = (p, parent, time.time())
            nxt += 1
        if not running:
            break
        progressed = False
        for cid, (p, conn, t0) in list(running.items()):
            if conn.poll(0):
                try:
                    what, payload = conn.recv()
                except EOFError:
                    what, payload = "error", "worker died"
                p.join(5)
                del running[cid]
                progressed = True
                if what == "error":
                    for q, _, _ in running.values():
                        q.kill()
                    raise Machinery("driver failed in a guarded worker:\n%s" % payload)
                results[cid] = payload
            elif time.time() - t0 > chunk_timeout:
                p.kill()
                p.join(5)
                del running[cid]
                hung.append(cid)
                progressed = True
            elif not p.is_alive() and not conn.poll(0.2):
                del running[cid]
                raise Machinery("guarded worker for chunk %d died without a result" % cid)
        if not progressed:
            time.sleep(0.05)
    for cid in range(len(chunks)):
        if cid not in results and cid not in hung:
            if on_skip is None:
                raise Machinery("guarded_map stopped after %d hanging chunks and no on_skip given" % len(hung))
            results[cid] = [on_skip(x) for x in chunks[cid]]
    for cid in hung:
        out, found = [], False
        for item in chunks[cid]:
            if found:
                out.append(on_skip(item) if on_skip else on_hang(item))
                continue
            parent, child = ctx.Pipe(duplex=False)
            p = ctx.Process(target=_guard_child, args=(func, [item], child, src), daemon=True)
            p.start()
            child.close()
            if parent.poll(item_timeout):
                what, payload = parent.recv()
                if what == "error":
                    raise Machinery("driver failed on %r:\n%s" % (item, payload))
                out.append(payload[0])
            else:
                p.kill()
                if on_hang is None:
                    raise Machinery("item did not finish within %ss: %r" % (item_timeout, item))
                out.append(on_hang(item))
                found = True
            p.join(2)
        results[cid] = out
    flat = []
    for cid in range(len(chunks)):
        flat.extend(results[cid])
    return flat
