"""C04 - every scalar value survives write-then-read with value and type intact.

model run : spec/Scalars.tla enumerates every string of <= MaxLen symbols over the alphabet of
            spec/Alphabet.tla (breadth first, complete) and the non-string scalar pool.
replay    : each case is placed at every position x key of the specification (Positions x KeyClasses)
            through the Python API (Document -> emit -> parse) and, for the shorter strings, through
            octave_write(changes=...) followed by a read of the written file.
validation: spec/Trace_Scalars.tla recomputes what must come back (NFC of the flattened symbols, or
            the literal of a number) and names the failing clause per record.
"""
from __future__ import annotations

import os
import shutil
import tempfile

from mbt import engine
from drivers.common import atoms_text, kind_of, nfc, run_async, text_atoms

KEYS = ["K", "PATTERN", "REGEX"]


def _value_of(case):
    if case["t"] == "str":
        return atoms_text(case["s"])
    lit = case["lit"]
    if case["t"] == "int":
        return int(lit)
    if case["t"] == "float":
        return float(lit)
    if case["t"] == "bool":
        return lit == "True"
    return None


def _obs(pos, key, route, got=None, err=None):
    if err is not None:
        return {"pos": pos, "key": key, "route": route, "ok": False, "kind": "error:" + err, "val": [], "lit": ""}
    k = kind_of(got)
    if k == "str":
        return {"pos": pos, "key": key, "route": route, "ok": True, "kind": "str", "val": text_atoms(nfc(got)), "lit": ""}
    if k in ("int", "float", "bool", "null"):
        return {"pos": pos, "key": key, "route": route, "ok": True, "kind": k, "val": [], "lit": repr(got)}
    return {"pos": pos, "key": key, "route": route, "ok": True, "kind": k, "val": [], "lit": ""}


def _dig(doc, pos, key, idx=0):
    """Find the value at a position of the re-read document (structure mismatch -> descriptive kind)."""
    from octave_mcp.core.ast_nodes import Assignment, InlineMap, ListValue

    if pos == "meta":
        return doc.meta[key]
    node = None
    for s in doc.sections:
        if isinstance(s, Assignment) and s.key == key:
            node = s
    if node is None:
        raise KeyError("assignment %s not found" % key)
    v = node.value
    if pos == "assign":
        return v
    if not isinstance(v, ListValue):
        return v  # wrong container kind: reported through KindEqual
    if pos in ("list1", "list3"):
        if len(v.items) != (1 if pos == "list1" else 3):
            return _Shape("list of %d items" % len(v.items))
        return v.items[idx]
    if pos == "nest":
        if len(v.items) != 2 or not isinstance(v.items[0], ListValue) or len(v.items[0].items) != 2:
            return _Shape("not [[v, x], y]")
        return v.items[0].items[0]
    if pos == "mapnest":
        if len(v.items) != 1 or not isinstance(v.items[0], InlineMap) or list(v.items[0].pairs.keys()) != [key]:
            return _Shape("list without the single inline map")
        inner = v.items[0].pairs[key]
        if not isinstance(inner, ListValue) or len(inner.items) != 1:
            return _Shape("inline map value is not a one-item list")
        return inner.items[0]
    if pos == "imap":
        if len(v.items) != 1 or not isinstance(v.items[0], InlineMap):
            return _Shape("list without the single inline map")
        if list(v.items[0].pairs.keys()) != [key]:
            return _Shape("inline map keys %r" % list(v.items[0].pairs.keys()))
        return v.items[0].pairs[key]
    raise AssertionError(pos)


class _Shape:
    def __init__(self, what):
        self.what = what


def _api(case, v):
    from octave_mcp.core.ast_nodes import Assignment, Document, InlineMap, ListValue
    from octave_mcp.core.emitter import emit
    from octave_mcp.core.parser import parse

    out = []
    for key in KEYS:
        for pos in ("assign", "meta", "list1", "list3", "imap", "nest", "mapnest"):
            if pos == "assign":
                doc = Document(name="T", sections=[Assignment(key=key, value=v)])
            elif pos == "meta":
                doc = Document(name="T", meta={key: v})
            elif pos == "list1":
                doc = Document(name="T", sections=[Assignment(key=key, value=ListValue(items=[v]))])
            elif pos == "list3":
                doc = Document(name="T", sections=[Assignment(key=key, value=ListValue(items=[v, "x", v]))])
            elif pos == "nest":
                doc = Document(name="T", sections=[Assignment(key=key, value=ListValue(items=[ListValue(items=[v, "x"]), "y"]))])
            elif pos == "mapnest":
                doc = Document(name="T", sections=[Assignment(key=key, value=ListValue(items=[InlineMap(pairs={key: ListValue(items=[v])})]))])
            else:
                doc = Document(name="T", sections=[Assignment(key=key, value=ListValue(items=[InlineMap(pairs={key: v})]))])
            try:
                text = emit(doc)
                back = parse(text)
            except Exception as e:  # the observation, not a machinery failure
                out.append(_obs(pos, key, "api", err=type(e).__name__))
                continue
            for idx in ((0, 2) if pos == "list3" else (0,)):
                try:
                    got = _dig(back, pos, key, idx)
                except Exception as e:
                    out.append(_obs(pos, key, "api", err="lost:" + type(e).__name__))
                    continue
                if isinstance(got, _Shape):
                    out.append(_obs(pos, key, "api", err="shape:" + got.what))
                else:
                    out.append(_obs(pos, key, "api", got=got))
    return out


_tool = None
_tmpdir = None


def _twin(v):
    """OCTAVE text of a value that compares equal to v in Python but is of another kind (1 / true / 1.0, 0 / false / 0.0), or None"""
    if isinstance(v, bool):
        return "1" if v else "0"
    if isinstance(v, int) and v in (0, 1):
        return "true" if v else "false"
    if isinstance(v, float) and v in (0.0, 1.0):
        return "1" if v else "0"
    if isinstance(v, int) and not isinstance(v, bool) and abs(v) < 2 ** 53:
        return "%d.0" % v
    if isinstance(v, float) and v == int(v) and abs(v) < 1e15:
        return "%d" % int(v)
    return None


def _frame(back, pos, key, twin):
    """'' when everything the request did not name is as the file had it (top-level keys K, Z and META.TYPE), else what differs"""
    from octave_mcp.core.ast_nodes import Assignment
    tops = {s.key: s.value for s in back.sections if isinstance(s, Assignment)}
    want_tops = {"Z": 1}
    if not (pos != "meta" and key == "K"):
        if not (twin is not None and pos == "assign" and key != "K") or True:
            want_tops["K"] = "x"
    if twin is not None and pos == "assign" and key == "K":
        want_tops.pop("K", None)
    for k, w in want_tops.items():
        if k not in tops:
            return "%s lost" % k
        if tops[k] != w or type(tops[k]) is not type(w):
            return "%s changed to %r" % (k, tops[k])
    extra = set(tops) - set(want_tops) - ({key} if pos != "meta" else set())
    if extra:
        return "unexpected keys %s" % sorted(extra)
    meta = dict(back.meta or {})
    if meta.get("TYPE") != "X":
        return "META.TYPE changed to %r" % (meta.get("TYPE"),)
    mextra = set(meta) - {"TYPE"} - ({key} if pos == "meta" else set())
    if mextra:
        return "unexpected META fields %s" % sorted(mextra)
    return ""


def _tool_route(case, v):
    global _tool, _tmpdir
    from octave_mcp.core.parser import parse
    from octave_mcp.mcp.write import WriteTool

    if _tool is None:
        _tool = WriteTool()
        _tmpdir = tempfile.mkdtemp(prefix="c04.", dir=os.environ.get("VERIF_SCRATCH", "/var/tmp"))
    path = os.path.join(_tmpdir, "t%d.oct.md" % os.getpid())
    out = []
    for key in KEYS:
        for pos in ("assign", "meta", "list1", "list3", "imap", "nest", "mapnest"):
            # where the value is a number / boolean, the field already holds its "twin": equal in Python, another kind in OCTAVE
            twin = _twin(v)
            with open(path, "w", encoding="utf-8") as f:
                f.write("===T===\nMETA:\n  TYPE::X\n%sK::x\nZ::1\n===END===\n" % ("" if twin is None or pos != "meta" else "  %s::%s\n" % (key, twin)))
            if twin is not None and pos == "assign":
                with open(path, "w", encoding="utf-8") as f:
                    f.write("===T===\nMETA:\n  TYPE::X\n%s%s::%s\nZ::1\n===END===\n" % ("" if key == "K" else "K::x\n", key, twin))
            if pos == "assign":
                kw = {"changes": {key: v}}
            elif pos == "meta":
                kw = {"changes": {"META." + key: v}}
            elif pos == "list1":
                kw = {"changes": {key: [v]}}
            elif pos == "list3":
                kw = {"changes": {key: [v, "x", v]}}
            elif pos == "nest":
                kw = {"changes": {key: [[v, "x"], "y"]}}
            elif pos == "mapnest":
                kw = {"changes": {key: [{key: [v]}]}}
            else:
                kw = {"changes": {key: [{key: v}]}}
            try:
                res = run_async(_tool.execute(target_path=path, **kw))
                if res.get("status") != "success":
                    codes = ",".join(str(e.get("code")) for e in res.get("errors", []))
                    out.append(_obs(pos, key, "tool", err="tool:" + codes))
                    continue
                with open(path, encoding="utf-8") as f:
                    back = parse(f.read())
            except Exception as e:
                out.append(_obs(pos, key, "tool", err=type(e).__name__))
                continue
            # the rest of the file is what it was (the tool instance is long-lived and has served other requests on this very text)
            frame = _frame(back, pos, key, twin)
            if frame:
                out.append(_obs(pos, key, "tool", err="frame:" + frame))
                continue
            for idx in ((0, 2) if pos == "list3" else (0,)):
                try:
                    got = _dig(back, pos, key, idx)
                except Exception as e:
                    out.append(_obs(pos, key, "tool", err="lost:" + type(e).__name__))
                    continue
                if isinstance(got, _Shape):
                    out.append(_obs(pos, key, "tool", err="shape:" + got.what))
                else:
                    out.append(_obs(pos, key, "tool", got=got))
    return out


def replay(item):
    i, case, tool = item
    v = _value_of(case)
    obs = _api(case, v)
    if tool:
        obs += _tool_route(case, v)
    # group identical outcomes: one entry per distinct (ok, kind, val, lit) with the positions it was seen at
    groups = {}
    for o in obs:
        k = (o["ok"], o["kind"], tuple(o["val"]), o["lit"])
        g = groups.get(k)
        if g is None:
            g = groups[k] = {"ok": o["ok"], "kind": o["kind"], "val": o["val"], "lit": o["lit"], "at": []}
        at = [o["pos"], o["key"], o["route"]]
        if at not in g["at"]:
            g["at"].append(at)
    return {"i": i, "case": case, "tool": tool, "obs": list(groups.values()), "n": len(obs)}


def _cleanup_tmp():
    base = os.environ.get("VERIF_SCRATCH", "/var/tmp")
    for n in os.listdir(base):
        if n.startswith("c04."):
            shutil.rmtree(os.path.join(base, n), ignore_errors=True)


# ------------------------------------------------------------------ known findings (see known_findings.json)
def _has_subseq(seq, sub):
    n = len(sub)
    return any(seq[j:j + n] == sub for j in range(len(seq) - n + 1))


def _flat(case):
    return list(atoms_text(case["s"]))


def _predict(case, route, use):
    """Value that the known defects in `use` make come back (text)."""
    s = nfc(atoms_text(case["s"]))
    raw = atoms_text(case["s"])
    if "comb" in use:
        raw = raw.replace("\n\u0301", "\\\u0144")
    if "cr" in use and route == "tool":
        raw = raw.replace("\r", "\n")
    return nfc(raw)


def _explain(case, o):
    """Smallest set of known defects explaining one bad observation, or None."""
    if case["t"] != "str" or not o["ok"] or o["kind"] != "str":
        return None
    got = atoms_text(o["val"])
    routes = {a[2] for a in o["at"]}
    for use in (("cr",), ("comb",), ("cr", "comb")):
        if all(got == _predict(case, rt, use) and got != _predict(case, rt, ()) for rt in routes):
            return set(use)
    return None


def _matcher(tag):
    def pred(fl, clause):
        ex = [_explain(fl["case"], o) for o in fl["allbad"]]
        return all(e is not None for e in ex) and any(tag in e for e in ex)
    return pred


MATCHERS = {"C04-cr-universal-newlines": _matcher("cr"), "C04-escaped-n-composes-with-mark": _matcher("comb")}


def descr(fl, clause):
    c = fl["case"]
    what = repr(atoms_text(c["s"])) if c["t"] == "str" else c["t"] + ":" + c["lit"]
    o = fl["obs"][0] if fl["obs"] else {}
    got = repr(atoms_text(o.get("val", []))) if o.get("kind") == "str" else "%s %s" % (o.get("kind"), o.get("lit"))
    return "value=%s read-back=%s at=%s" % (what, got, o.get("at", [])[:2])


def run(ctx):
    if ctx.replay:
        import json
        rp = json.load(open(ctx.replay))
        cases = [rp["case"]]
        tool_len = 99
    else:
        if ctx.thorough:
            runs = [("full", 3), ("core", 4)]
            tool_len = 3
        else:
            runs = [("full", 2), ("core", 3)]
            tool_len = 2
        seen = set()
        cases = []
        for sigma, maxlen in runs:
            res = ctx.model("Scalars", tag=f"Scalars_{sigma}{maxlen}",
                            constants={"MaxLen": maxlen, "SigmaName": sigma},
                            invariants=["EmitCase", "NFCIdempotent"], required_actions=["Extend"])
            for c in res.payload_lines():
                key = (c["t"], tuple(c["s"]), c["lit"])
                if key not in seen:
                    seen.add(key)
                    cases.append(c)
    items = [(i, c, c["t"] != "str" or len(c["s"]) <= tool_len) for i, c in enumerate(cases)]
    try:
        records = engine.parallel_map(replay, items, chunk=100)
    finally:
        _cleanup_tmp()
    fails = ctx.validate("Trace_Scalars", records, constants={"MaxLen": 0, "SigmaName": "core"})
    failures = []
    for r in records:
        if r["i"] in fails:
            bad = [o for o in r["obs"] if _bad(r["case"], o)]
            failures.append({"i": r["i"], "case": r["case"], "obs": bad[:6], "allbad": bad, "fails": fails[r["i"]]})
    evaluations = sum(r["n"] for r in records)
    nontrivial = sum(1 for c in cases if c["t"] != "str" or any(not a.isalnum() for a in c["s"]))
    samples = [{"case": r["case"], "obs": r["obs"][:2]} for r in records[5:2000:700]]
    return engine.report(
        ctx, failures=failures, matchers=MATCHERS, evaluations=evaluations, distinct_nontrivial=nontrivial,
        rule="cases = all symbol sequences up to the bound over spec/Alphabet.tla (TLC breadth-first, complete) "
             "plus the numeric/bool/null pool; distinct = distinct case; non-trivial = contains a "
             "non-alphanumeric symbol or is not a string; evaluations = (case, position, key, route) round trips",
        samples=samples, exhaustive=True, descr=descr,
        assumptions=["harness: atoms->text and the projection of the re-read AST to (kind, characters) are trusted",
                     "strict reader parse() is the reader; tool route only for the shorter strings (see rule)",
                     "NFC of the observed value is computed by Python's unicodedata; the expected NFC by the specification"],
        extra_coverage={"positions": ["assign", "meta", "list1", "list3", "imap"], "keys": KEYS,
                        "tool_route_max_len": tool_len})


def _bad(case, o):
    want = "str" if case["t"] == "str" else case["t"]
    if not o["ok"] or o["kind"] != want:
        return True
    if want == "str":
        return o["val"] != text_atoms(nfc(atoms_text(case["s"])))
    return o["lit"] != case["lit"]
