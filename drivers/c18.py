"""C18 - absent, null and value stay distinct; changes touch only named keys.

model run : spec/Changes.tla = documents of spec/Author.tla, each followed by sequences of changes requests (DELETE / null /
            value of every kind) on own and fresh top-level keys and on META fields
replay    : octave_write(changes=...) with META addressed in dot form and in merge form, `octave write --changes`; Absent placed
            in constructed ASTs
validation: spec/Trace_Changes.tla recomputes ApplyChanges on the abstract document and judges Effect / Frame
"""
from __future__ import annotations

import json
import os
import shutil
import tempfile

from mbt import engine
from drivers.common import run_async
from drivers.docs import lines_text, project, EMPTY_ABS

PYVAL = {"w": "hello", "two": "hello world", "int": 42, "t": True, "l3": ["a", "b", "c"], "l0": [], "empty": "", "numstr": "42",
         "lmap": {"k": 1, "j": "x"}, "null": None, "flow": "A→B", "float": 3.14, "nl": "line1\nline2", "sjl": "[1, 2]", "sje": "[]", "sjo": "{}",
         "f": False, "one": 1, "fone": 1.0, "zero": 0}


def pyreq(reqs, merge):
    """the changes dict(s) for a request sequence; one dict per request (a sequence = several calls)"""
    out = []
    for r in reqs:
        v = {"$op": "DELETE"} if r["op"] == "DELETE" else (None if r["op"] == "null" else PYVAL[r["v"]])
        if v is not None and r["op"] == "value" and r["v"] == "lmap":
            v = [{"k": 1}, {"j": "x"}]            # a list of single-pair maps: what [k::1,j::x] denotes
        if r["key"].startswith("META.") and merge:
            out.append({"META": {r["key"][5:]: v}})
        else:
            out.append({r["key"]: v})
    return out


def chunks(text):
    """top-level chunks of a canonical text: key -> list of chunk texts (a chunk runs to the next column-0 line)"""
    out = {}
    cur_key, cur = None, []
    body = False
    fence = None
    for ln in text.split("\n"):
        # the content of a literal zone belongs to the chunk of its key, whatever it looks like
        if fence is not None:
            if cur_key is not None:
                cur.append(ln)
            if ln.strip() == fence:
                fence = None
            continue
        if ln.lstrip().startswith("```") and cur_key is not None:
            fence = ln.strip()[: len(ln.strip()) - len(ln.strip().lstrip("`"))]
            cur.append(ln)
            continue
        if ln.startswith("===") and ln.endswith("==="):
            if cur_key is not None:
                out.setdefault(cur_key, []).append("\n".join(cur))
            cur_key, cur = None, []
            body = not ln.startswith("===END")
            continue
        if not body:
            continue
        if ln and not ln.startswith(" ") and not ln.startswith("]") and not ln.startswith("`") and not ln.startswith("//"):
            if cur_key is not None:
                out.setdefault(cur_key, []).append("\n".join(cur))
            k = ln.split("::", 1)[0].split(":", 1)[0].split("[", 1)[0]
            cur_key, cur = k, [ln]
        elif cur_key is not None:
            cur.append(ln)
    if cur_key is not None:
        out.setdefault(cur_key, []).append("\n".join(cur))
    return out


_st = {}


def replay(item):
    i, case = item
    from click.testing import CliRunner
    from octave_mcp.cli.main import cli
    from octave_mcp.core.emitter import emit
    from octave_mcp.core.parser import parse
    from octave_mcp.mcp.write import WriteTool

    if not _st:
        _st["dir"] = tempfile.mkdtemp(prefix="c18.", dir=os.environ.get("VERIF_SCRATCH", "/var/tmp"))
    text = lines_text(case["lines"], case["doc"]["g"]["final"])
    try:
        canon_before = emit(parse(text))
    except Exception:
        return {"i": i, "case": {"doc": case["doc"], "reqs": case["reqs"]}, "obs": [], "text": text}
    named = {k.split(".")[0] if k.startswith("META.") else k for k in case["named"]}
    before_chunks = {k: v for k, v in chunks(canon_before).items() if k not in named}
    obs = []
    p = os.path.join(_st["dir"], "t%d.oct.md" % os.getpid())
    routes = [("tool_dot", False), ("tool_merge", True), ("cli", False), ("tool_mutations", False)]
    if len(case["reqs"]) >= 2 and len({r["key"] for r in case["reqs"]}) == len(case["reqs"]):
        routes.append(("tool_one_request", False))          # the whole sequence as ONE changes object (keys in request order)
    for route, merge in routes:
        with open(p, "w", encoding="utf-8", newline="") as f:
            f.write(text)
        ok = True
        try:
            chs = pyreq(case["reqs"], merge)
            if route == "tool_one_request":
                one = {}
                for ch in chs:
                    one.update(ch)
                chs = [one]
            for ch in chs:
                if route == "cli":
                    rr = CliRunner().invoke(cli, ["write", p, "--changes", json.dumps(ch)], catch_exceptions=True)
                    ok = ok and rr.exit_code == 0
                elif route == "tool_mutations" and len(ch) == 1 and next(iter(ch)).startswith("META."):
                    # the `mutations` parameter (META field overrides, both modes): content mode with the file's own text
                    tool = _st.setdefault("tool", WriteTool())
                    with open(p, encoding="utf-8", newline="") as f:
                        cur = f.read()
                    r = run_async(tool.execute(target_path=p, content=cur, mutations={next(iter(ch))[5:]: next(iter(ch.values()))}))
                    ok = ok and r.get("status") == "success"
                else:
                    # one long-lived tool per process, as the MCP server keeps; a dry-run preview of a DIFFERENT amend comes first
                    tool = _st.setdefault("tool", WriteTool())
                    run_async(tool.execute(target_path=p, changes={"PREVIEW_ONLY": [1, 2], "META.PREVIEW": "x"}, corrections_only=True))
                    r = run_async(tool.execute(target_path=p, changes=ch))
                    ok = ok and r.get("status") == "success"
            with open(p, encoding="utf-8", newline="") as f:
                after_text = f.read()
            after = project(parse(after_text))
            after_chunks = {k: v for k, v in chunks(after_text).items() if k not in named}
            obs.append({"route": route, "ok": bool(ok), "after": after, "frame_lines_same": after_chunks == before_chunks})
        except Exception as e:
            obs.append({"route": route, "ok": False, "after": EMPTY_ABS, "frame_lines_same": True, "err": type(e).__name__})
    return {"i": i, "case": {"doc": case["doc"], "reqs": case["reqs"]}, "obs": obs, "text": text}


def absent_cases():
    """Absent placed at every position of constructed ASTs must emit as the document without that node."""
    from octave_mcp.core.ast_nodes import Absent, Assignment, Block, Document, InlineMap, ListValue, Section
    from octave_mcp.core.emitter import emit
    bad = []
    A = Absent()

    def same(name, with_absent, without):
        if emit(with_absent) != emit(without):
            bad.append({"site": name, "with_absent": emit(with_absent), "without": emit(without)})

    same("top-level assignment", Document(name="D", sections=[Assignment(key="A", value=1), Assignment(key="B", value=A)]),
         Document(name="D", sections=[Assignment(key="A", value=1)]))
    same("block child", Document(name="D", sections=[Block(key="B", children=[Assignment(key="X", value=A), Assignment(key="Y", value=2)])]),
         Document(name="D", sections=[Block(key="B", children=[Assignment(key="Y", value=2)])]))
    same("section child", Document(name="D", sections=[Section(section_id="1", key="S", children=[Assignment(key="X", value=A), Assignment(key="Y", value=2)])]),
         Document(name="D", sections=[Section(section_id="1", key="S", children=[Assignment(key="Y", value=2)])]))
    same("META field", Document(name="D", meta={"T": "x", "U": A}), Document(name="D", meta={"T": "x"}))
    same("nested META field", Document(name="D", meta={"N": {"a": 1, "b": A}}), Document(name="D", meta={"N": {"a": 1}}))
    same("list item", Document(name="D", sections=[Assignment(key="L", value=ListValue(items=["a", A, "b"]))]),
         Document(name="D", sections=[Assignment(key="L", value=ListValue(items=["a", "b"]))]))
    same("list item of a long list", Document(name="D", sections=[Assignment(key="L", value=ListValue(items=["a", A, "b", "c"]))]),
         Document(name="D", sections=[Assignment(key="L", value=ListValue(items=["a", "b", "c"]))]))
    same("inline map value", Document(name="D", sections=[Assignment(key="L", value=ListValue(items=[InlineMap(pairs={"k": A}), "b"]))]),
         Document(name="D", sections=[Assignment(key="L", value=ListValue(items=["b"]))]))
    same("all META fields", Document(name="D", meta={"U": A}, sections=[Assignment(key="A", value=1)]),
         Document(name="D", sections=[Assignment(key="A", value=1)]))
    # null is written and read back as null, and differs from "" and []
    from octave_mcp.core.parser import parse
    t = emit(Document(name="D", sections=[Assignment(key="N", value=None), Assignment(key="E", value=""), Assignment(key="L", value=ListValue(items=[]))]))
    d = parse(t)
    vals = [s.value for s in d.sections]
    if not (vals[0] is None and vals[1] == "" and isinstance(vals[2], ListValue) and vals[2].items == []):
        bad.append({"site": "null / empty string / empty list", "text": t})
    return bad


def _cleanup():
    base = os.environ.get("VERIF_SCRATCH", "/var/tmp")
    for n in os.listdir(base):
        if n.startswith("c18."):
            shutil.rmtree(os.path.join(base, n), ignore_errors=True)


MATCHERS = {}


def run(ctx):
    try:
        base = dict(MaxItems=2, MaxDepth=1, MaxDev=0, PoolA={"w", "l3"}, PoolB={"int", "two"}, PoolC=set(), HeaderMode="plain", HeaderMaxBody=0,
                    Feat={"block", "dupkey"}, Knobs=set(), MaxReqs=1, ReqKeys={"A", "B", "FRESH"},
                    ReqVals={"w", "two", "int", "t", "l3", "l0", "empty", "lmap", "nl", "sjl", "sje", "sjo"}, MetaKeys={"TYPE", "NEWF"})
        runs = [("one_req", base),
                ("two_reqs", dict(base, MaxItems=2, PoolA={"w"}, PoolB={"l3"}, Feat={"dupkey"}, MaxReqs=2, ReqVals={"two", "l3"}, MetaKeys={"TYPE"})),
                ("meta", dict(base, MaxItems=1, PoolA={"w"}, HeaderMode="all", HeaderMaxBody=1, Feat=set(), ReqKeys={"A"}, ReqVals={"w", "l3", "int"},
                              MetaKeys={"TYPE", "VERSION", "NEST", "NEWF"}))]
        # values that compare equal in Python but are different kinds (true / 1 / 1.0, false / 0), on keys and META fields holding one of them
        runs.append(("kinds", dict(base, MaxItems=1, MaxDepth=0, PoolA={"t", "one"}, Feat=set(), MaxReqs=1, ReqKeys={"A"},
                                   ReqVals={"t", "one", "fone", "f", "zero"}, MetaKeys={"TYPE"})))
        runs.append(("meta_kinds", dict(base, MaxItems=1, MaxDepth=0, PoolA={"w"}, PoolC={"one", "t", "fone", "zero", "f"}, HeaderMode="metavals", HeaderMaxBody=1,
                                        Feat=set(), MaxReqs=1, ReqKeys={"A"}, ReqVals={"t", "one", "fone", "f", "zero"}, MetaKeys={"K"})))
        # keys whose values the emitter treats specially (always quoted when they are strings)
        runs.append(("pattern_keys", dict(base, MaxItems=1, MaxDepth=0, PoolA={"w"}, Feat=set(), MaxReqs=1, ReqKeys={"PATTERN", "REGEX"},
                                          ReqVals={"w", "int", "t", "l0", "l3"}, MetaKeys={"TYPE"})))
        if ctx.thorough:
            runs.append(("three_reqs", dict(base, MaxItems=2, PoolA={"w"}, PoolB={"l3"}, Feat={"dupkey"}, MaxReqs=3, ReqVals={"two"}, MetaKeys={"TYPE"})))
            runs.append(("wide", dict(base, MaxItems=3, MaxDepth=2, PoolA={"w", "l3", "z1"}, PoolB={"int", "two", "lmap"}, PoolC={"w"},
                                      Feat={"block", "section", "dupkey"})))
        cases, seen = [], set()
        for tag, consts in runs:
            res = ctx.model("Changes", tag="Changes_" + tag, constants=consts, init="CInit", next_="CNext",
                            invariants=["EmitChange", "TriStateDistinct", "BodyWellFormed"], required_actions=["Grow", "Ask"], heap="8g")
            for c in res.payload_lines():
                k = json.dumps([c["doc"], c["reqs"]], sort_keys=True)
                if k not in seen:
                    seen.add(k)
                    cases.append(c)
        recs = engine.parallel_map(replay, list(enumerate(cases)), chunk=50)
        absent_bad = absent_cases()
    finally:
        _cleanup()
    judged = [r for r in recs if r["obs"]]
    tr = [{"i": r["i"], "case": r["case"], "obs": [{k: v for k, v in o.items() if k != "err"} for o in r["obs"]]} for r in judged]
    fails = ctx.validate("Trace_Changes", tr, constants=dict(MaxItems=0, MaxDepth=0, MaxDev=0, PoolA=set(), PoolB=set(), PoolC=set(),
                                                             HeaderMode="plain", HeaderMaxBody=0, Feat=set(), Knobs=set(), MaxReqs=0,
                                                             ReqKeys={"A"}, ReqVals={"w"}, MetaKeys={"TYPE", "VERSION", "NEST", "NEWF", "TAGS", "N", "FLOW", "L", "K"}))
    failures = [{"i": r["i"], "case": {"reqs": r["case"]["reqs"]}, "obs": [{k: v for k, v in o.items() if k != "after"} for o in r["obs"]],
                 "text": r["text"], "fails": fails[r["i"]]} for r in judged if r["i"] in fails]
    for n, b in enumerate(absent_bad):
        failures.append({"i": 10 ** 6 + n, "case": {"absent_site": b["site"]}, "obs": b, "text": "", "fails": ["AbsentNeverEmitted"]})
    # calls in flight together on one event loop: an amendment must not write back a key another request changed meanwhile (spec/OneLoop.tla)
    from drivers import oneloop
    ol_failures, ol_cases = oneloop.run_oneloop(ctx, kinds={"setB_n", "setC_n", "delC_n", "nullB_n", "dry_n", "content_n", "setB_b"})
    for fl in ol_failures:
        fl["text"] = ""
    failures.extend(ol_failures)
    return engine.report(
        ctx, failures=failures, matchers=MATCHERS, evaluations=sum(len(r["obs"]) for r in judged) + 10 + ol_cases,
        distinct_nontrivial=len(judged),
        rule="cases = reachable states of spec/Changes.tla: (document, request sequence) with requests DELETE / null / value over own "
             "and fresh top-level keys and META fields (constants in model_runs); every case is non-trivial (>= 1 request); plus 10 "
             "constructed ASTs with Absent at each kind of position",
        samples=[{"text": judged[k]["text"], "requests": judged[k]["case"]["reqs"], "routes_ok": [o["ok"] for o in judged[k]["obs"]]}
                 for k in (0, len(judged) // 2, len(judged) - 1)], exhaustive=True,
        descr=lambda fl, clause: ("one_loop=%s observed=%s" % (json.dumps(fl["case"]["one_loop"]), json.dumps(fl["obs"])[:300])) if "one_loop" in fl["case"]
        else "requests=%s input=%r" % (json.dumps(fl["case"].get("reqs")), fl["text"][:140]),
        assumptions=["one loop: the requests of a case (spec/OneLoop.tla) are started together with asyncio.gather on one loop and one WriteTool, with a "
                     "bounded rendezvous at os.replace; results and final values must equal the outcome of some serial order",
                     "keys that name a block or section are not requested (undocumented outcome)",
                     "the frame condition is checked both on content (every unnamed node equal) and textually (the canonical chunk of "
                     "every unnamed top-level key is byte-identical before and after)",
                     "a dict value is requested as the list of single-pair maps it denotes in OCTAVE"])
