"""C02 - canonicalisation preserves document content exactly (see drivers/docs.py)."""
from drivers import docs


def _bare_zone_trouble(fl, clause):
    body = fl["case"]["doc"]["body"]
    for i, it in enumerate(body):
        if it["k"] == "assign" and it["key"] == "":
            first = i > 0 and body[i - 1]["k"] == "block" and body[i - 1]["d"] == it["d"] - 1
            followed = i + 1 < len(body) and body[i + 1]["d"] >= it["d"]
            if not first or followed:
                return True
    return False


MATCHERS = {"C02-bare-zone-child-indent": _bare_zone_trouble}


def run(ctx):
    return docs.run(ctx, "C02", matchers=MATCHERS)
