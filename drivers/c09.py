"""C09 - validity is invariant under respelling; validating never alters content.

model run : spec/SchemaDocs.tla with Spell = TRUE enumerates schema x instance x spelling knobs (indent width, spaces around ::,
            optional quotes, blank lines, omitted END)
replay    : every spelling, then the implementation's canonical text and the canonical text of that, through the Validator API,
            octave_validate under all four profiles, octave_write(schema=..., corrections_only) and `octave validate`
validation: spec/Trace_Validity.tla keeps the verdict memo per (route, profile) inside each content group and judges
            SameVerdict / ReadOnly / Stable / StatusAsSpecified
"""
from __future__ import annotations

import hashlib
import json
import os

from mbt import engine
from drivers import common as _common
from drivers import c08
from drivers.common import run_async

PROFILES = ["STRICT", "STANDARD", "LENIENT", "ULTRA"]


def pairs_of(errs, name):
    return sorted({"%s@%s" % (e.get("code"), c08.field_of(e.get("field"), name)) for e in errs})


def observe(text, name):
    """All (route, profile) verdicts for one input text."""
    from click.testing import CliRunner
    from octave_mcp.cli.main import cli
    from octave_mcp.core.emitter import emit
    from octave_mcp.core.parser import parse, parse_with_warnings
    from octave_mcp.core.validator import Validator
    from octave_mcp.mcp.validate import ValidateTool
    from octave_mcp.mcp.write import WriteTool
    from octave_mcp.schemas.loader import load_schema_by_name

    plain = emit(parse_with_warnings(text)[0])
    obs = []
    sdef = load_schema_by_name(name)

    def api():
        errs = Validator(schema=None).validate(parse(text), strict=False, section_schemas={sdef.name: sdef})
        return {"status": "-", "pairs": sorted({"%s@%s" % (e.code, c08.field_of(e.field_path, name)) for e in errs}), "canonical": plain}

    a1, a2 = api(), api()
    obs.append({"route": "validator_api", "profile": "-", "status": a1["status"], "pairs": a1["pairs"], "readonly": True, "stable": a1 == a2})
    vt = _common.tool("validate")
    for prof in PROFILES:
        def call():
            r = run_async(vt.execute(content=text, schema=name, profile=prof))
            ve = r.get("validation_errors", [])
            ws = [w for w in r.get("warnings", []) if isinstance(w, dict) and "code" in w]
            return {"status": str(r.get("validation_status")), "pairs": pairs_of(list(ve) + ws, name), "canonical": r.get("canonical")}
        r1, r2 = call(), call()
        obs.append({"route": "octave_validate", "profile": prof, "status": r1["status"], "pairs": r1["pairs"],
                    "readonly": r1["canonical"] == plain, "stable": r1 == r2})
    wt = _common.tool("write")
    p = os.path.join(c08._schema_dir(), "w%d.oct.md" % os.getpid())

    def wcall():
        r = run_async(wt.execute(target_path=p, content=text, schema=name, corrections_only=True))
        return {"status": str(r.get("validation_status")), "pairs": pairs_of(r.get("validation_errors", []) + r.get("validation_warnings", []), name),
                "hash": r.get("canonical_hash")}
    w1, w2 = wcall(), wcall()
    obs.append({"route": "octave_write", "profile": "STANDARD", "status": w1["status"], "pairs": w1["pairs"],
                "readonly": w1["hash"] == hashlib.sha256(plain.encode()).hexdigest(), "stable": w1 == w2})
    # a real write, twice, to a path that is kept for the whole content group: later spellings (and the canonical text itself) are
    # written over a file that already holds their canonical text
    p2 = os.path.join(c08._schema_dir(), "real%d.oct.md" % os.getpid())

    def wreal():
        r = run_async(wt.execute(target_path=p2, content=text, schema=name))
        held = None
        if r.get("status") == "success" and os.path.exists(p2):
            with open(p2, encoding="utf-8", newline="") as f:
                held = f.read()
        return {"status": str(r.get("validation_status")), "pairs": pairs_of(r.get("validation_errors", []) + r.get("validation_warnings", []), name),
                "held": held}
    w3, w4 = wreal(), wreal()
    obs.append({"route": "octave_write_real", "profile": "STANDARD", "status": w3["status"], "pairs": w3["pairs"],
                "readonly": w3["held"] in (None, plain), "stable": w3 == w4})
    fp = os.path.join(c08._schema_dir(), "c%d.oct.md" % os.getpid())
    with open(fp, "w", encoding="utf-8") as f:
        f.write(text)
    rr = CliRunner().invoke(cli, ["validate", fp, "--schema", name], catch_exceptions=True)
    st = "-"
    for ln in rr.output.splitlines():
        if ln.startswith("validation_status:"):
            st = ln.split(":", 1)[1].strip()
    obs.append({"route": "cli_validate", "profile": "-", "status": "exit%d:%s" % (rr.exit_code, st), "pairs": [], "readonly": True, "stable": True})
    return obs, plain


def replay_group(item):
    g0, gid, cases = item
    name = c08.schema_name(cases[0])
    d = c08._schema_dir()
    sp = os.path.join(d, "specs", "schemas", name.lower() + ".oct.md")
    if not os.path.exists(sp):
        with open(sp, "w", encoding="utf-8") as f:
            f.write(c08.schema_text(name, cases[0]))
    out = []
    canon = None
    base = {k: cases[0][k] for k in ("fields", "policy", "unknown", "inst")}
    for c in cases:
        text = c08.instance_text(name, c)
        try:
            obs, plain = observe(text, name)
        except Exception as e:
            raise engine.Machinery("C09 observe failed on %r: %r" % (text, e))
        canon = canon or plain
        out.append({"gid": gid, "case": base, "kind": "spelling", "obs": obs, "text": text})
    # the implementation's own canonical text, and the canonical text of that
    for kind in ("canonical", "canonical2"):
        obs, plain = observe(canon, name)
        out.append({"gid": gid, "case": base, "kind": kind, "obs": obs, "text": canon})
        canon = plain
    return out


def replay_meta_orders(item):
    """The builtin META dictionary, where STRICT and STANDARD disagree (a META field the dictionary does not list): the same text is
    validated under every profile in every order on the worker's long-lived tool - the verdict of a profile does not depend on which
    profile was served before it, nor on the spelling (judged by SameVerdict of spec/Trace_Validity.tla through the group memo)."""
    import itertools
    from octave_mcp.core.emitter import emit
    from octave_mcp.core.parser import parse_with_warnings
    n0, gid, metas = item
    base = {"fields": [], "policy": "NONE", "unknown": False, "inst": {"-": "ok"}}
    vt = _common.tool("validate")
    wt = _common.tool("write")
    out = []
    texts = []
    for meta in metas:
        body = ['TYPE::"TEST"', 'VERSION::"1.0"'] + meta
        texts += ["===DOC===\nMETA:\n" + "".join("  %s\n" % b for b in body) + "\nA::1\n===END===\n",
                  "===DOC===\nMETA:\n" + "".join("    %s\n" % b.replace("::", " :: ") for b in body) + "\nA :: 1\n"]
    from octave_mcp.mcp.validate import ValidateTool
    for text in texts:
        plain = emit(parse_with_warnings(text)[0])
        # the reference verdicts (first record of the group, bound by the memo): every call on a tool that has served nothing before
        for order in [None] + list(itertools.permutations(PROFILES)):
            obs = []
            for prof in (order or PROFILES):
                r = run_async((vt if order else ValidateTool()).execute(content=text, schema="META", profile=prof))
                ve = r.get("validation_errors", [])
                obs.append({"route": "octave_validate_meta%d" % (texts.index(text) // 2), "profile": prof, "status": str(r.get("validation_status")),
                            "pairs": sorted({"%s@%s" % (e.get("code"), e.get("field")) for e in ve}), "readonly": r.get("canonical") == plain, "stable": True})
            out.append({"gid": gid, "case": base, "kind": "profile order %s" % "/".join(order or ["fresh tool per call"]), "obs": obs, "text": text})
    return out


def run(ctx):
    try:
        states = {"ok", "ok2", "bad", "missing", "null", "ambig", "casefold", "numstr", "dup_bad_last", "numedge", "numedge_ok"}
        res = ctx.model("SchemaDocs", constants={"MaxFields": 2 if ctx.thorough else 1, "StateSet": states, "Spell": True},
                        invariants=["EmitCase"], required_actions=["Fill"])
        cases = list(res.payload_lines())
        groups = {}
        for c in cases:
            key = json.dumps([sorted(c["fields"]), c["policy"], c["unknown"], c["inst"]], sort_keys=True)
            groups.setdefault(key, []).append(c)
        if not ctx.thorough:
            # quick: every content group, 8 of its 32 spellings chosen by the seed
            import random
            rnd = random.Random(ctx.seed)
            for k in groups:
                g = groups[k]
                groups[k] = [g[0]] + rnd.sample(g[1:], min(7, len(g) - 1))
        items = [(n, hashlib.sha256(k.encode()).hexdigest()[:16], g) for n, (k, g) in enumerate(sorted(groups.items()))]
        outs = engine.parallel_map(replay_group, items, chunk=4)
        outs += engine.parallel_map(replay_meta_orders, [(len(items) + k, "meta-orders-%d" % k, m) for k, m in enumerate(
            [[['OWNER::"me"']], [[]], [['STATUS::"ACTIVE"', 'EXTRA::[1,2]']]])], chunk=1)
    finally:
        c08._cleanup()
    recs = []
    for grp in outs:
        for r in grp:
            r["i"] = len(recs)
            recs.append(r)
    fails = ctx.validate("Trace_Validity", [{k: r[k] for k in ("i", "gid", "case", "obs")} for r in recs], stateful_key="gid",
                         constants={"MaxFields": 0, "StateSet": set(), "Spell": False})
    failures = [{"i": r["i"], "case": dict(r["case"], kind=r["kind"]), "obs": r["obs"], "text": r["text"], "fails": fails[r["i"]]}
                for r in recs if r["i"] in fails]
    samples = [{"text": recs[k]["text"], "kind": recs[k]["kind"], "obs": recs[k]["obs"][:3]} for k in (1, len(recs) // 2, len(recs) - 1)]
    return engine.report(
        ctx, failures=failures, matchers=MATCHERS, evaluations=sum(len(r["obs"]) * 2 for r in recs),
        distinct_nontrivial=sum(1 for r in recs if r["kind"] != "spelling" or r is not None) - len(items),
        rule="groups = every schema x instance content of spec/SchemaDocs.tla (quick: 1-field schemas, thorough: <= 2 fields); "
             "members = its spellings (thorough: all 32 knob combinations; quick: the plain one + 7 drawn with VERIF_SEED) + the "
             "implementation's canonical text + the canonical text of that; non-trivial = every member after the first of a group "
             "(a pair of inputs to compare); evaluations = calls made (each twice for Stable)",
        samples=samples, exhaustive=bool(ctx.thorough),
        descr=lambda fl, clause: "kind=%s input=%r" % (fl["case"].get("kind"), fl["text"][:160]),
        assumptions=["respellings are the documented layout freedoms that could affect a value's kind: indentation width, spaces "
                     "around ::, optional quotes around a plain word, blank lines, omitted END",
                     "LENIENT/ULTRA answering VALIDATED with warnings is the documented behaviour"])


MATCHERS = {}
