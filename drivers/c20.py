"""C20 - any text is either read or cleanly refused; tools never raise.

model runs : spec/TokenSeqs.tla (every sequence of <= MaxTok tokens over the 30-token alphabet), spec/SpanMutations.tla
             (delete / insert / duplicate / transpose spans of the packaged specifications, primers and schemas)
replay     : tokenize, parse, parse_with_warnings, parse_meta_only on every input; the four tools with every format/mode flag
             on the shorter ones; size-scaled families measured with a deterministic work count (executed source lines,
             sys.monitoring) and a wall-clock watchdog in a child process
validation : spec/Trace_Totality.tla evaluates the outcome algebra and the growth bound
"""
from __future__ import annotations

import glob
import json
import multiprocessing as mp
import os
import random
import shutil
import sys
import tempfile
import time

from mbt import engine
from drivers.common import atom_text, run_async

READERS = ["tokenize", "parse", "parse_with_warnings", "parse_meta_only"]


def _tok_text(t):
    if t.startswith("===U") and t.endswith("===") and len(t) > 9:
        return "===" + atom_text(t[3:-3]) + "==="
    return atom_text(t)


def text_of(toks):
    return " ".join(_tok_text(t) for t in toks)


def read_outcomes(text):
    from octave_mcp.core.lexer import LexerError, tokenize
    from octave_mcp.core.parser import ParserError, parse, parse_meta_only, parse_with_warnings
    fns = {"tokenize": tokenize, "parse": parse, "parse_with_warnings": parse_with_warnings, "parse_meta_only": parse_meta_only}
    out = []
    for name in READERS:
        try:
            fns[name](text)
            out.append({"entry": name, "outcome": "document", "positioned": True})
        except LexerError as e:
            out.append({"entry": name, "outcome": "LexerError", "positioned": isinstance(getattr(e, "line", None), int) and isinstance(getattr(e, "column", None), int)})
        except ParserError as e:
            tok = getattr(e, "token", None)
            out.append({"entry": name, "outcome": "ParserError", "positioned": tok is None or isinstance(getattr(tok, "line", None), int)})
        except RecursionError:
            out.append({"entry": name, "outcome": "RecursionError", "positioned": False})
        except BaseException as e:  # noqa
            out.append({"entry": name, "outcome": type(e).__name__, "positioned": False})
    return out


_st = {}
STANDING = ('---\ntitle: standing\n---\n===STANDING===\nMETA:\n  TYPE::X\n  VERSION::"1.0"\n\u00a7CONTEXT::LOCAL\n  A::1\n\u00a72b::NAMED\n  B::"two words"\n\u00a71.5::X\n  C::3\n'
            '\u00a710::TEN\n  T::1\nBLK:\n  D::[1,2,[K::v]]\n  E::a\u2192b\nZ::\n```\nraw ::\n```\n// note\n===END===\n')


def tool_outcomes(text, full):
    from octave_mcp.mcp.compile_grammar import CompileGrammarTool
    from octave_mcp.mcp.eject import EjectTool
    from octave_mcp.mcp.validate import ValidateTool
    from octave_mcp.mcp.write import WriteTool
    if not _st:
        _st.update(v=ValidateTool(), w=WriteTool(), e=EjectTool(), g=CompileGrammarTool(),
                   dir=tempfile.mkdtemp(prefix="c20.", dir=os.environ.get("VERIF_SCRATCH", "/var/tmp")))
    p = os.path.join(_st["dir"], "t%d.oct.md" % os.getpid())
    # the target already holds a document with every structural kind (named / suffixed / dotted section ids, block, list, zone, comment,
    # frontmatter): whatever the new text is, the write path has an old file to compare it with
    with open(p, "w", encoding="utf-8") as f:
        f.write(STANDING)
    calls = [("validate", _st["v"], dict(content=text, schema="META")),
             ("validate/fix", _st["v"], dict(content=text, schema="META", fix=True)),
             ("write/dry", _st["w"], dict(target_path=p, content=text, corrections_only=True)),
             ("write/lenient", _st["w"], dict(target_path=p, content=text, lenient=True, corrections_only=True, schema="META")),
             ("eject/json", _st["e"], dict(content=text, schema="META", format="json")),
             ("grammar/content", _st["g"], dict(content=text))]
    if full:
        calls += [("validate/%s" % k, _st["v"], dict(content=text, schema="META", **{k: True})) for k in ("diff_only", "compact", "grammar_hint", "debug_grammar")]
        calls += [("validate/%s" % pr, _st["v"], dict(content=text, schema="META", profile=pr)) for pr in ("STRICT", "LENIENT", "ULTRA")]
        calls += [("write/salvage", _st["w"], dict(target_path=p, content=text, lenient=True, parse_error_policy="salvage", corrections_only=True)),
                  ("write/real", _st["w"], dict(target_path=p, content=text)),
                  ("write/changes", _st["w"], dict(target_path=p, changes={"K": text}))]
        calls += [("eject/%s/%s" % (m, f), _st["e"], dict(content=text, schema="META", mode=m, format=f))
                  for m in ("canonical", "authoring", "executive", "developer") for f in ("octave", "json", "yaml", "markdown", "gbnf")]
        calls += [("grammar/json_schema", _st["g"], dict(content=text, format="json_schema"))]
    out = []
    for name, tool, kw in calls:
        o = {"entry": name, "raised": "-", "serialisable": True, "has_status": True}
        try:
            r = run_async(tool.execute(**kw))
            try:
                json.dumps(r)
            except Exception:
                o["serialisable"] = False
            o["has_status"] = isinstance(r, dict) and ("status" in r or "validation_status" in r)
        except BaseException as e:  # noqa
            o["raised"] = type(e).__name__
        out.append(o)
    return out


def replay_seq(item):
    i, toks, tools, full = item
    text = text_of(toks)
    readers = read_outcomes(text)
    # the same tokens as the body line of a section and of a block (readers only): other loops of the parser
    for ctxname, pre in (("in_section", "\u00a71::S\n  "), ("in_block", "B:\n  X::1\n  ")):
        for o in read_outcomes(pre + text + "\n"):
            readers.append(dict(o, entry=o["entry"] + "@" + ctxname))
    touts = tool_outcomes(text, full) if tools else []
    if tools:
        # the same tokens as the value of an assignment: a document the tools accept, with that value in it
        touts += [dict(o, entry=o["entry"] + "@value") for o in tool_outcomes("===D===\nK::" + text + "\n===END===\n", False)]
    return {"i": i, "kind": "seq", "readers": readers, "tools": touts, "text": text}


# ---- mutations of packaged files
def packaged_files():
    import octave_mcp
    root = os.path.dirname(octave_mcp.__file__)
    fs = sorted(glob.glob(os.path.join(root, "resources", "specs", "*.oct.md")) + glob.glob(os.path.join(root, "resources", "primers", "*.oct.md"))
                + glob.glob(os.path.join(root, "resources", "specs", "schemas", "*.oct.md")) + glob.glob(os.path.join(root, "schemas", "builtin", "*.oct.md")))
    return fs


def mutate(text, m):
    units = text.split("\n") if m["unit"] == "line" else list(text)
    n = len(units)
    a = min(n - 1, (m["at"] * n) // 1000)
    ln = max(1, m["len"] if m["unit"] == "line" else m["len"] * 7)
    b = min(n, a + ln)
    span = units[a:b]
    if m["op"] == "delete":
        new = units[:a] + units[b:]
    elif m["op"] == "duplicate":
        new = units[:b] + span + units[b:]
    elif m["op"] == "insert":
        ins = ['K::"unterminated [', "]]] ::: ->"] if m["unit"] == "line" else list('"[§')
        new = units[:a] + ins + units[a:]
    else:
        t = min(n, (m["to"] * n) // 1000)
        rest = units[:a] + units[b:]
        t = min(len(rest), t)
        new = rest[:t] + span + rest[t:]
    return ("\n" if m["unit"] == "line" else "").join(new)


def replay_mut(item):
    i, m, tools = item
    files = packaged_files()
    path = files[(m["file"] - 1) % len(files)]
    with open(path, encoding="utf-8") as f:
        text = mutate(f.read(), m)
    return {"i": i, "kind": "mut", "readers": read_outcomes(text), "tools": tool_outcomes(text, False) if tools else [],
            "text": "%s %s" % (os.path.basename(path), json.dumps(m, sort_keys=True))}


# ---- size-scaled families: deterministic work count + watchdog
FAMILIES = {
    "many_lines": lambda n: "".join("K%d::value%d\n" % (i, i) for i in range(n)),
    "many_alias_lines": lambda n: "".join("K%d::a->b\n" % i for i in range(n)),
    "long_multiword_line": lambda n: "K::" + " ".join("w%d" % i for i in range(n)) + "\n",
    "long_list": lambda n: "K::[" + ",".join("i%d" % i for i in range(n)) + "]\n",
    "long_string": lambda n: 'K::"' + "x" * (8 * n) + '"\n',
    "long_comment": lambda n: "// " + "c " * (4 * n) + "\nK::1\n",
    "deep_blocks": lambda n: "".join("  " * i + "B%d:\n" % i for i in range(n)) + "  " * n + "K::1\n",
    "many_blocks": lambda n: "".join("B%d:\n  K::%d\n" % (i, i) for i in range(n)),
    "long_flow_expression": lambda n: "K::" + "->".join("s%d" % i for i in range(n)) + "\n",
    "many_sections": lambda n: "".join("§%d::S\n  K::1\n" % (i + 1) for i in range(n)),
    "many_meta_fields": lambda n: "===D===\nMETA:\n" + "".join("  F%d::%d\n" % (i, i) for i in range(n)) + "===END===\n",
    "many_zones": lambda n: "".join("Z%d::\n```\nx\n```\n" % i for i in range(n)),
    "many_inline_maps": lambda n: "K::[" + ",".join("k%d::%d" % (i, i) for i in range(n)) + "]\n",
    "many_duplicate_keys": lambda n: "".join("K::%d\n" % i for i in range(n)),
    "unterminated_quote_tail": lambda n: 'K::"' + "abcdefgh " * max(1, n // 8) + "\n",
    "unterminated_triple_quote_tail": lambda n: 'K::"""' + "abcdefgh " * max(1, n // 8) + "\n",
    "many_unbalanced_openers": lambda n: "K::" + "[" * min(n, 90) + "a" + "\n",
    "brackets_to_the_cap": lambda n: "K::" + "[" * min(n, 99) + "a" + "]" * min(n, 99) + "\n",
}


def _count_lines(fn, text):
    """number of source-line events executed by fn(text) (deterministic after a warm-up call)"""
    mon = sys.monitoring
    tool_id = 3
    cnt = [0]

    def cb(code, line):
        cnt[0] += 1
    try:
        mon.use_tool_id(tool_id, "octave-verif")
    except ValueError:
        pass
    mon.register_callback(tool_id, mon.events.LINE, cb)
    mon.set_events(tool_id, mon.events.LINE)
    try:
        try:
            fn(text)
        except Exception:
            pass
    finally:
        mon.set_events(tool_id, 0)
        mon.register_callback(tool_id, mon.events.LINE, None)
        mon.free_tool_id(tool_id)
    return cnt[0]


def _family_child(family, sizes, q):
    from octave_mcp.core.parser import parse_with_warnings
    gen = FAMILIES[family]
    try:
        parse_with_warnings(gen(4))
    except Exception:
        pass
    for n in sizes:
        t0 = time.time()
        text = gen(n)
        w = _count_lines(parse_with_warnings, text)
        q.put((n, w, time.time() - t0, len(text)))


def measure_family(item):
    i, family, sizes, budget = item
    ctx = mp.get_context("fork")
    q = ctx.Queue()
    p = ctx.Process(target=_family_child, args=(family, sizes, q))
    p.start()
    got, deadline, timed_out = [], time.time() + budget, False
    while len(got) < len(sizes):
        try:
            got.append(q.get(timeout=0.5))
        except Exception:
            if not p.is_alive() and q.empty():
                break
            if time.time() > deadline:
                timed_out = True
                break
    p.terminate() if p.is_alive() else None
    p.join(5)
    if len(got) >= 2:
        w1, w2, l1, l2 = got[-2][1], got[-1][1], got[-2][3], got[-1][3]
    else:
        w1, w2, l1, l2 = 1, 1, 1, 1
    if not timed_out and len(got) < len(sizes):
        timed_out = True            # the child died (e.g. recursion crash) before finishing
    return {"i": i, "kind": "family", "family": family, "rw": int(round(1000 * max(1, w2) / max(1, w1))),
            "rlen": int(round(1000 * max(1, l2) / max(1, l1))), "timed_out": bool(timed_out),
            "points": [[n, ln, w, round(t, 3)] for n, w, t, ln in got], "text": family}


def _cleanup():
    base = os.environ.get("VERIF_SCRATCH", "/var/tmp")
    for n in os.listdir(base):
        if n.startswith("c20."):
            shutil.rmtree(os.path.join(base, n), ignore_errors=True)


MATCHERS = {}


def run(ctx):
    try:
        maxtok = 4 if ctx.thorough else 3
        res = ctx.model("TokenSeqs", constants={"MaxTok": maxtok, "Mode": "input"}, invariants=["EmitCase"], required_actions=["Extend"])
        seqs = [c["toks"] for c in res.payload_lines()]
        tool_len = 3 if ctx.thorough else 2
        items = [(k, s, len(s) <= tool_len, len(s) <= 1) for k, s in enumerate(seqs)]
        recs = engine.guarded_map(replay_seq, items, chunk=300, chunk_timeout=60, item_timeout=10, on_hang=hang_record, on_skip=skip_record)
        # random character strings (seeded): over the alphabet of C04 plus arbitrary code points
        rnd = random.Random(ctx.seed)
        pool = [chr(c) for c in list(range(32, 127)) + [9, 10, 13, 0xA7, 0x2192, 0x2295, 0x21CC, 0x2227, 0x2228, 0x29FA, 0x301, 0xE9, 0x1F600, 0x200D, 1, 0x7F, 0xFEFF, 0x2028]]
        nrand = 4000 if ctx.thorough else 600
        rtexts = ["".join(rnd.choice(pool) for _ in range(rnd.randint(1, 60))) for _ in range(nrand)]
        base = len(recs)
        recs += engine.guarded_map(replay_rand, [(base + k, t, k % 4 == 0) for k, t in enumerate(rtexts)], chunk=100, chunk_timeout=60,
                                   item_timeout=10, on_hang=hang_record, on_skip=skip_record)
        nfiles = len(packaged_files())
        res = ctx.model("SpanMutations", constants={"NFiles": nfiles, "Grid": {0, 130, 370, 500, 640, 870, 999} if ctx.thorough else {0, 370, 640, 999},
                                                    "Lens": {1, 3, 9} if ctx.thorough else {1, 4}}, invariants=["EmitCase"], required_actions=["Pick"])
        muts = list(res.payload_lines())
        base = len(recs)
        recs += engine.guarded_map(replay_mut, [(base + k, m, k % (2 if ctx.thorough else 6) == 0) for k, m in enumerate(muts)], chunk=40,
                                   chunk_timeout=90, item_timeout=15, on_hang=hang_record, on_skip=skip_record)
        res = ctx.model("Probes", constants={"Shapes": {"meta_dup", "top_dup", "block_dup", "single"}}, invariants=["EmitCase"], required_actions=["Pick"])
        probes = list(res.payload_lines())
        base = len(recs)
        recs += engine.guarded_map(replay_probe, [(base + k, p) for k, p in enumerate(probes)], chunk=20, chunk_timeout=90, item_timeout=20,
                                   on_hang=hang_record, on_skip=skip_record)
        sizes = [100, 200, 400, 800, 1600] if ctx.thorough else [100, 200, 400, 800]
        base = len(recs)
        import concurrent.futures as cf
        with cf.ThreadPoolExecutor(max_workers=8) as ex:     # each measurement forks its own child (killed by the watchdog)
            fams = list(ex.map(measure_family, [(base + k, f, sizes, 120 if ctx.thorough else 60) for k, f in enumerate(sorted(FAMILIES))]))
        recs += fams
    finally:
        _cleanup()
    tr = []
    for r in recs:
        if r["kind"] == "family":
            tr.append({k: r[k] for k in ("i", "kind", "family", "rw", "rlen", "timed_out")})
        else:
            tr.append({"i": r["i"], "kind": r["kind"], "readers": r["readers"], "tools": r["tools"]})
    fails = ctx.validate("Trace_Totality", tr, constants={"MaxTok": 0, "Mode": "input"})
    failures = []
    for r in recs:
        if r["i"] in fails:
            bad = [o for o in r.get("readers", []) if o["outcome"] not in ("document", "LexerError", "ParserError") or not o["positioned"]] + \
                  [o for o in r.get("tools", []) if o["raised"] != "-" or not o["serialisable"] or not o["has_status"]]
            failures.append({"i": r["i"], "case": {"kind": r["kind"], "input": r["text"][:300]}, "obs": bad[:6] or r.get("points"), "fails": fails[r["i"]]})
    return engine.report(
        ctx, failures=failures, matchers=MATCHERS,
        evaluations=sum(len(r.get("readers", [])) + len(r.get("tools", [])) for r in recs) + sum(len(r.get("points", [])) for r in fams),
        distinct_nontrivial=len(seqs) + len(muts) + len(rtexts) + len(fams) + len(probes),
        rule="inputs = every sequence of <= MaxTok tokens over the 30-token alphabet of spec/TokenSeqs.tla (complete), every span "
             "mutation of spec/SpanMutations.tla applied to each packaged specification / primer / schema, VERIF_SEED-random "
             "character strings, and %d size-scaled families doubled from 100 to %d; every input counts as non-trivial (arbitrary "
             "text); readers on all inputs, tools on the shorter sequences and a share of the others" % (len(FAMILIES), sizes[-1]),
        samples=[{"input": recs[k]["text"][:120], "readers": [o["outcome"] for o in recs[k]["readers"]]} for k in (5, len(seqs) // 2)]
        + [{"family": f["family"], "points_n_chars_work_seconds": f["points"]} for f in fams[:2]], exhaustive=True,
        descr=lambda fl, clause: "%s input=%r" % (fl["case"]["kind"], fl["case"]["input"][:160]),
        assumptions=["the timing clause is decided on a deterministic work count (executed source lines of parse_with_warnings, "
                     "sys.monitoring): growth over the last doubling must stay below exponent 1.35; work hidden inside a C call is "
                     "only guarded by the per-family wall-clock watchdog (child process, killed after the budget)",
                     "a RecursionError, MemoryError or any exception other than LexerError / ParserError from a reader is a failure; "
                     "a tool must return a JSON-serialisable dict carrying status or validation_status"],
        extra_coverage={"token_sequences": len(seqs), "span_mutations": len(muts), "random_strings": len(rtexts),
                        "families": {f["family"]: f["points"] for f in fams}})


def skip_record(item):
    """not run: the watchdog had already found the code hanging on other inputs"""
    return {"i": item[0], "kind": "skipped", "readers": [], "tools": [], "text": ""}


def replay_probe(item):
    i, case = item
    from drivers.docs import chunk_text
    text = "\n".join("".join(chunk_text(c) for c in ln) for ln in case["lines"]) + "\n"
    return {"i": i, "kind": "probe", "readers": read_outcomes(text), "tools": tool_outcomes(text, True), "text": text}


def hang_record(item):
    """an input on which the readers/tools did not come back within the watchdog's time"""
    what = item[1]
    text = text_of(what) if isinstance(what, list) else (json.dumps(what, sort_keys=True) if isinstance(what, dict) else str(what))
    return {"i": item[0], "kind": "hang", "readers": [{"entry": "watchdog", "outcome": "HANG", "positioned": False}], "tools": [], "text": text}


def replay_rand(item):
    i, text, tools = item
    return {"i": i, "kind": "rand", "readers": read_outcomes(text), "tools": tool_outcomes(text, False) if tools else [], "text": text}
