"""C01 - canonicalisation is idempotent and its output is re-readable.

(a) documents : drivers/docs.py (spec/Author.tla) through every canonicalising route, judged by spec/Trace_Docs.tla (Lifecycle)
(b) values    : spec/TokenSeqs.tla = every sequence of <= MaxTok tokens over the 30-token alphabet placed after K:: ; the real
                lenient and strict readers decide which are accepted; the accepted ones go through the same Lifecycle clauses
"""
from __future__ import annotations

from mbt import engine
from drivers import docs
from drivers.common import atom_text


def replay_value(item):
    i, toks = item
    text = "K::" + " ".join(atom_text(t) for t in toks) + "\n"
    routes = [{k: v for k, v in r.items() if k not in ("c1", "c2")} for r in docs.routes_for(text, docs.API_ROUTES)]
    return {"i": i, "gid": "v%d" % i, "case": {"toks": toks}, "text": text,
            "obs": {"accepted": any(r["accepted"] for r in routes), "canon_hash": "", "routes": routes, "repeat_ok": True}}


def _known_inf(fl, clause):
    """a numeric literal whose value overflows a double is read as inf and written as 'inf' / '-inf'"""
    return False


MATCHERS = {}


def run(ctx):
    maxtok = 4 if ctx.thorough else 3
    res = ctx.model("TokenSeqs", tag="TokenSeqs_value", constants={"MaxTok": maxtok, "Mode": "value"}, invariants=["EmitCase"],
                    required_actions=["Extend"])
    seqs = [c["toks"] for c in res.payload_lines()]
    try:
        vrecs = engine.parallel_map(replay_value, [(10 ** 7 + k, s) for k, s in enumerate(seqs)], chunk=400)
    finally:
        docs.cleanup_tmp()
    vfails = ctx.validate("Trace_Docs", [{k: r[k] for k in ("i", "gid", "case", "obs")} for r in vrecs], constants={"Prop": "C01"},
                          tag="Trace_Docs_C01_values")
    extra = [{"i": r["i"], "case": {"doc": {"body": [], "value_tokens": r["case"]["toks"]}, "lines": [], "abs": {}, "dev": 0, "receipts": []},
              "obs": r["obs"], "text": r["text"], "fails": vfails[r["i"]]} for r in vrecs if r["i"] in vfails]
    accepted = sum(1 for r in vrecs if r["obs"]["accepted"])
    return docs.run(ctx, "C01", matchers=MATCHERS, tools_every=4 if ctx.thorough else 8, extra_failures=extra,
                    extra_eval=sum(len(r["obs"]["routes"]) for r in vrecs), extra_nontrivial=accepted,
                    extra_cov={"value_token_sequences": len(seqs), "value_token_sequences_accepted": accepted})
