"""C01 - see drivers/docs.py and spec/Trace_Docs.tla."""
from drivers import docs

MATCHERS = {}


def run(ctx):
    return docs.run(ctx, "C01", matchers=MATCHERS, tools_every=1 if ctx.thorough else 4)
