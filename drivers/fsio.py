"""File-system interposition for C16/C17/C19: records every file-system call the code under test makes on
paths below a sandbox root, can fail a chosen call with an errno, kill the process at a chosen call, or park
the calling thread (C17 scheduler).  Installed only inside driver processes; nothing in /repo is changed."""
from __future__ import annotations

import builtins
import errno as _errno
import io
import os
import tempfile
import threading

ERRNO = {"ENOSPC": _errno.ENOSPC, "EACCES": _errno.EACCES, "EIO": _errno.EIO, "EINTR": _errno.EINTR, "EROFS": _errno.EROFS}

_real = {}
_lock = threading.RLock()
_active = None  # the Recorder in force, or {thread name: Recorder}


def _save():
    if _real:
        return
    _real.update(open=builtins.open, io_open=io.open, stat=os.stat, lstat=os.lstat, mkdir=os.mkdir, unlink=os.unlink,
                 remove=os.remove, replace=os.replace, rename=os.rename, chmod=os.chmod, fchmod=os.fchmod, fsync=os.fsync,
                 fdopen=os.fdopen, mkstemp=tempfile.mkstemp, readlink=os.readlink, rmdir=os.rmdir, symlink=os.symlink,
                 link=os.link, truncate=os.truncate, scandir=os.scandir, listdir=os.listdir, access=os.access,
                 utime=os.utime, os_open=os.open)


class Killed(BaseException):
    pass


class Recorder:
    """plan: {call_index: ("err", "EIO") | ("kill",)}; on_call(rec, j, op, name) may block (scheduler)."""

    def __init__(self, root, name_of, plan=None, kill_mode="exit", on_call=None, who=None):
        self.root = os.path.realpath(root)
        self.name_of = name_of          # real path -> abstract name
        self.plan = plan or {}
        self.kill_mode = kill_mode
        self.on_call = on_call
        self.events = []
        self.n = 0
        self.handles = {}               # id(proxy)/fd -> handle name
        self.nh = 0
        self.who = who

    def inside(self, path):
        try:
            p = os.fspath(path)
        except TypeError:
            return False
        if isinstance(p, bytes):
            p = os.fsdecode(p)
        if not os.path.isabs(p):
            p = os.path.join(os.getcwd(), p)
        p = os.path.normpath(p)
        return p == self.root or p.startswith(self.root + os.sep)

    def name(self, path):
        p = os.fspath(path)
        if isinstance(p, bytes):
            p = os.fsdecode(p)
        if not os.path.isabs(p):
            p = os.path.join(os.getcwd(), p)
        return self.name_of(os.path.normpath(p))

    def new_handle(self):
        self.nh += 1
        return "h%d" % self.nh

    def call(self, op, do, *, path="-", path2="-", h="-", chunk="-", mode=0, partial=None):
        """Run one interposed call: count it, apply the plan, record the event with its real outcome."""
        with _lock:
            self.n += 1
            j = self.n
            act = self.plan.get(j)
        if self.on_call is not None:
            self.on_call(self, j, op, path, path2)
        ev = {"op": op, "res": "ok", "h": h, "path": path, "path2": path2, "chunk": chunk, "mode": int(mode), "j": j}
        if act is not None and act[0] == "kill":
            self.events.append({"op": "kill", "res": "ok", "h": "-", "path": "-", "path2": "-", "chunk": "-", "mode": 0, "j": j})
            if self.kill_mode == "exit":
                self.flush_events()
                os._exit(137)
            raise Killed()
        if act is not None and act[0] == "err":
            ev["res"] = act[1]
            self.events.append(ev)
            if partial is not None:
                try:
                    partial()
                except Exception:
                    pass
            raise OSError(ERRNO[act[1]], os.strerror(ERRNO[act[1]]))
        try:
            r = do()
        except OSError as e:
            ev["res"] = _errno.errorcode.get(e.errno, "E?") if e.errno else "E?"
            self.events.append(ev)
            raise
        self.events.append(ev)
        return r

    # events are handed to the parent through a pipe when the child is killed
    sink = None

    def flush_events(self):
        if self.sink is not None:
            import json
            os.write(self.sink, (json.dumps(self.events) + "\n").encode())


class FileProxy:
    """Wraps a file object: write() only fills a user-space buffer, flush()/close() move it to the real file."""

    def __init__(self, rec, real, h, writable):
        self._rec, self._real, self._h, self._w = rec, real, h, writable
        self._pending = []
        self._closed = False

    # --- writing
    def write(self, data):
        chunk = _chunk_id(data)
        self._rec.call("write", lambda: self._pending.append(data), h=self._h, chunk=chunk)
        return len(data)

    def _push(self, part=False):
        data = self._pending
        self._pending = []
        for d in data:
            self._real.write(d[: max(1, len(d) // 2)] if part else d)
        self._real.flush()

    def flush(self):
        if not self._w:
            return
        self._rec.call("flush", lambda: self._push(), h=self._h, partial=lambda: self._push(part=True))

    def close(self):
        if self._closed:
            return
        self._closed = True

        def do():
            if self._w:
                self._push()
            self._real.close()

        def torn():
            if self._w:
                self._push(part=True)
            self._real.close()

        self._rec.call("close", do, h=self._h, partial=torn)

    # --- reading
    def read(self, *a):
        return self._rec.call("read", lambda: self._real.read(*a), h=self._h)

    def readline(self, *a):
        return self._real.readline(*a)

    def readlines(self, *a):
        return self._rec.call("read", lambda: self._real.readlines(*a), h=self._h)

    def __iter__(self):
        return iter(self._real)

    def fileno(self):
        return self._real.fileno()

    def __enter__(self):
        return self

    def __exit__(self, *exc):
        self.close()
        return False

    def __getattr__(self, k):
        return getattr(self._real, k)


_chunk_names = {}


def _chunk_id(data):
    import hashlib
    if isinstance(data, str):
        data = data.encode("utf-8", "surrogatepass")
    return "c" + hashlib.sha256(data).hexdigest()[:12]


def chunk_id(text):
    return _chunk_id(text)


def _current():
    r = _active
    if isinstance(r, dict):
        return r.get(threading.current_thread().name)
    return r


def _rec_for(path):
    r = _current()
    if r is None:
        return None
    if r.who is not None and threading.current_thread().name not in r.who:
        return None
    try:
        return r if r.inside(path) else None
    except Exception:
        return None


def install(rec):
    """Patch the entry points; returns an uninstall function."""
    global _active
    _save()
    _active = rec
    R = _real

    def p_open(file, mode="r", *a, **kw):
        r = _rec_for(file) if not isinstance(file, int) else None
        if r is None:
            return R["open"](file, mode, *a, **kw)
        name = r.name(file)
        h = r.new_handle()
        writable = any(c in mode for c in "wax+")
        op = "open_w" if ("w" in mode) else ("open_a" if ("a" in mode or "x" in mode or "+" in mode) else "open_r")
        real = r.call(op, lambda: R["open"](file, mode, *a, **kw), path=name, h=h)
        return FileProxy(r, real, h, writable)

    def p_fdopen(fd, mode="r", *a, **kw):
        r = _current()
        if r is None or fd not in r.handles:
            return R["fdopen"](fd, mode, *a, **kw)
        h = r.handles[fd]
        real = r.call("fdopen", lambda: R["fdopen"](fd, mode, *a, **kw), h=h)
        return FileProxy(r, real, h, True)

    def p_mkstemp(suffix=None, prefix=None, dir=None, text=False):
        r = _rec_for(dir) if dir is not None else None
        if r is None:
            return R["mkstemp"](suffix, prefix, dir, text)
        h = r.new_handle()
        box = {}

        def do():
            box["r"] = R["mkstemp"](suffix, prefix, dir, text)
            return box["r"]

        # the abstract name of the new file is only known after creation
        with _lock:
            r.n += 1
            j = r.n
            act = r.plan.get(j)
        if r.on_call is not None:
            r.on_call(r, j, "mkstemp", "tmp?", "-")
        if act is not None and act[0] == "kill":
            r.events.append({"op": "kill", "res": "ok", "h": "-", "path": "-", "path2": "-", "chunk": "-", "mode": 0, "j": j})
            if r.kill_mode == "exit":
                r.flush_events()
                os._exit(137)
            raise Killed()
        if act is not None and act[0] == "err":
            r.events.append({"op": "mkstemp", "res": act[1], "h": h, "path": "tmp?", "path2": "-", "chunk": "-", "mode": 0, "j": j})
            raise OSError(ERRNO[act[1]], os.strerror(ERRNO[act[1]]))
        fd, path = do()
        r.handles[fd] = h
        r.events.append({"op": "mkstemp", "res": "ok", "h": h, "path": r.name(path), "path2": "-", "chunk": "-", "mode": 0, "j": j})
        return fd, path

    def wrap_path(opname, real, effect=True):
        def f(path, *a, **kw):
            r = _rec_for(path) if not isinstance(path, int) else None
            if r is None:
                return real(path, *a, **kw)
            mode = a[0] if (opname in ("chmod", "mkdir") and a and isinstance(a[0], int)) else 0
            return r.call(opname, lambda: real(path, *a, **kw), path=r.name(path), mode=mode & 0o7777)
        return f

    def wrap_two(opname, real):
        def f(src, dst, *a, **kw):
            r = _rec_for(dst) or _rec_for(src)
            if r is None:
                return real(src, dst, *a, **kw)
            return r.call(opname, lambda: real(src, dst, *a, **kw), path=r.name(src), path2=r.name(dst))
        return f

    def p_fchmod(fd, mode):
        r = _current()
        if r is None or fd not in r.handles:
            return R["fchmod"](fd, mode)
        return r.call("fchmod", lambda: R["fchmod"](fd, mode), h=r.handles[fd], mode=mode & 0o7777)

    def p_fsync(fd):
        r = _current()
        if r is None:
            return R["fsync"](fd)
        h = r.handles.get(fd)
        if h is not None:
            return r.call("fsync", lambda: R["fsync"](fd), h=h)
        # a descriptor the recorder did not hand out (os.open, dup, a directory): name the file it refers to
        try:
            path = r.name(R["readlink"]("/proc/self/fd/%d" % fd))
        except OSError:
            path = "-"
        return r.call("fsync", lambda: R["fsync"](fd), h="fd", path=path)

    builtins.open = p_open
    io.open = p_open
    os.fdopen = p_fdopen
    tempfile.mkstemp = p_mkstemp
    os.stat = wrap_path("stat", R["stat"])
    os.lstat = wrap_path("lstat", R["lstat"])
    os.mkdir = wrap_path("mkdir", R["mkdir"])
    os.unlink = wrap_path("unlink", R["unlink"])
    os.remove = wrap_path("unlink", R["remove"])
    os.rmdir = wrap_path("rmdir", R["rmdir"])
    os.chmod = wrap_path("chmod", R["chmod"])
    os.readlink = wrap_path("readlink", R["readlink"])
    os.truncate = wrap_path("truncate", R["truncate"])
    os.replace = wrap_two("rename", R["replace"])
    os.rename = wrap_two("rename", R["rename"])
    os.link = wrap_two("link", R["link"])
    os.fchmod = p_fchmod
    os.fsync = p_fsync

    def uninstall():
        global _active
        _active = None
        builtins.open = R["open"]
        io.open = R["io_open"]
        os.fdopen = R["fdopen"]
        tempfile.mkstemp = R["mkstemp"]
        for k in ("stat", "lstat", "mkdir", "unlink", "remove", "rmdir", "chmod", "readlink", "truncate", "replace", "rename",
                  "link", "fchmod", "fsync"):
            setattr(os, k, R[k])

    return uninstall
