"""C13 - what a compiled grammar can generate, the validator accepts.

model run 1: spec/Gbnf.tla enumerates schemas whose chains are decided by CONST / ENUM / TYPE[BOOLEAN] / TYPE[NUMBER] / DATE /
             ISO8601 (alone, with REQ, with OPT) x FIELDS / META.CONTRACT route
compile    : the real compiler; the field rule of every returned grammar is cut after  "NAME" "::" ws  and parsed into a tree
model run 2: spec/Derive.tla reads the observed rule trees back and enumerates Gbnf!Lang of each one (exhaustive for literals
             and alternations; repetitions 0..2 and one long uniform repetition; digit classes instantiated with 0 1 2 9, or with
             calendar boundary digits for date-shaped rules)
replay     : every derived string is written FIELD::string, read by the real reader, given to the field's real chain
             (ConstraintChain.evaluate) and, on the FIELDS route, to octave_validate under the schema
validation : spec/Trace_Sound.tla judges ReaderAccepts, ReadAsThatField, ChainAccepts, ValidatorAccepts
"""
from __future__ import annotations

import datetime
import json
import os
import re

from mbt import engine
from drivers import common as _common
from drivers import gbnf
from drivers.common import run_async

NAMES = {"STATUS", "Count9"}
DECIDING = ("ConstConstraint", "EnumConstraint", "TypeConstraint", "DateConstraint", "Iso8601Constraint")


def deciding_kind(chain):
    """name of the chain's most specific member as compile_chain ranks them, or None when the chain is outside the statement"""
    if chain is None or not getattr(chain, "constraints", None):
        return None
    names = [type(c).__name__ for c in chain.constraints]
    if any(n not in DECIDING + ("RequiredConstraint", "OptionalConstraint") for n in names):
        return None
    for k in DECIDING:
        if k in names:
            c = chain.constraints[names.index(k)]
            if k == "TypeConstraint" and str(getattr(c, "expected_type", "")).upper() not in ("BOOLEAN", "NUMBER"):
                return None
            return k
    return None


def chain_of(case, k=0):
    """the k-th field's constraint chain as the schema reader built it (the same object kind the compiler was given)"""
    from octave_mcp.core.parser import parse
    name = gbnf.field_name(case["fields"][k]["name"])
    if case["route"] == "FIELDS":
        from octave_mcp.core.schema_extractor import extract_schema_from_document
        sd = extract_schema_from_document(parse(gbnf.fields_doc(case)))
        fd = sd.fields.get(name)
        return fd.pattern.constraints if fd is not None and fd.pattern is not None else None
    from octave_mcp.core.gbnf_compiler import _extract_contract_field_specs, parse_contract_field
    for spec in _extract_contract_field_specs(parse(gbnf.contract_doc(case)).meta.get("CONTRACT")):
        try:
            n, ch = parse_contract_field(spec)
        except ValueError:
            continue
        if n == name:
            return ch
    return None


def compile_case(item):
    """-> rules [{id, body(tree), kind, field index}] for one schema (every field whose chain is decided by a listed kind)"""
    i, case = item
    out = {"i": i, "case": case, "rules": [], "skipped": ""}
    gs = None
    for k, fld in enumerate(case["fields"]):
        try:
            chain = chain_of(case, k)
        except Exception as e:
            out["skipped"] = "schema not read: %s" % type(e).__name__
            continue
        kind = deciding_kind(chain)
        if kind is None:
            out["skipped"] = "chain not decided by a listed kind (read as %s)" % ([type(c).__name__ for c in chain.constraints] if chain is not None and chain.constraints else None)
            continue
        name = gbnf.field_name(fld["name"])
        if gs is None:
            gs = gbnf.grammars(case)
        seen = set()
        for ex, g in gs:
            rules = gbnf.field_rules(g)
            # the field's rule: the one whose body starts  "NAME" "::" ws
            for rn, body in rules.items():
                if len(body) >= 3 and body[0]["t"] == "LIT" and gbnf.unescape(body[0]["v"]) == name and body[1] == {"t": "LIT", "v": "::", "ok": True} \
                        and body[2]["t"] == "NAME" and body[2]["v"] == "ws":
                    frag = body[3:]
                    key = json.dumps(frag)
                    if key in seen:
                        continue
                    seen.add(key)
                    for v, plan in enumerate(gbnf.plans(frag)):
                        tree = gbnf.parse_body(frag, plan)
                        if tree is None:
                            out["skipped"] = "rule body outside the tree language"
                            continue
                        gbnf.shrink(tree, 1500)
                        out["rules"].append({"id": "%d/%d/%s/%d" % (i, k, ex, v), "body": tree, "kind": kind, "k": k,
                                             "text": " ".join(t["v"] if t["t"] in ("LIT", "CLASS", "NAME") else t["t"] for t in frag)[:200]})
    return out


def replay(item):
    j, d = item
    from octave_mcp.core.ast_nodes import Assignment, Block
    from octave_mcp.core.parser import parse
    from octave_mcp.mcp.validate import ValidateTool

    case, w, k = d["case"], d["w"], d.get("k", 0)
    name = gbnf.field_name(case["fields"][k]["name"])
    rec = {"i": j, "rule": d["rule"], "read_ok": False, "key_ok": False, "chain_ok": False, "tool_ok": False, "w": w, "got": "", "err": ""}
    if case["route"] == "FIELDS":
        text = "===I===\nMETA:\n  TYPE::\"TEST\"\nGEN_G:\n  %s::%s\n===END===\n" % (name, w)
    else:
        text = gbnf.contract_doc(case).replace("BODY::1\n", "%s::%s\n" % (name, w))
    rec["text"] = text
    try:
        doc = parse(text)
        rec["read_ok"] = True
    except Exception as e:
        rec["err"] = "%s: %s" % (type(e).__name__, str(e)[:120])
        return rec
    kids = doc.sections
    if case["route"] == "FIELDS":
        blk = [s for s in doc.sections if isinstance(s, Block) and s.key == "GEN_G"]
        kids = blk[0].children if len(blk) == 1 and len(doc.sections) == 1 else []
    asg = [c for c in kids if isinstance(c, Assignment) and c.key == name]
    if len(asg) != 1 or len(kids) != 1:
        rec["got"] = "children=%s" % [getattr(c, "key", type(c).__name__) for c in kids]
        return rec
    rec["key_ok"] = True
    value = asg[0].value
    rec["got"] = "%s:%r" % (type(value).__name__, value)
    rec["got"] = rec["got"][:160]
    try:
        chain = chain_of(case, k)
        r = chain.evaluate(value=value, path=name)
        rec["chain_ok"] = bool(r.valid)
        if not r.valid:
            rec["err"] = "; ".join("%s %s" % (e.code, e.message) for e in r.errors)[:200]
    except Exception as e:
        rec["err"] = "chain raised %s" % type(e).__name__
        return rec
    if case["route"] == "FIELDS":
        d0 = gbnf._env()
        sp = os.path.join(d0, "specs", "schemas", "gen_g.oct.md")
        want = gbnf.fields_doc(case)
        if _cur.get("schema") != want or not os.path.exists(sp):
            with open(sp, "w", encoding="utf-8") as f:
                f.write(want)
            _cur["schema"] = want
        try:
            r = run_async(_common.tool("validate").execute(content=text, schema="GEN_G"))
            errs = [e for e in (r.get("validation_errors") or []) if name in json.dumps(e)]
            # in a two-field schema the other field is absent from this instance: only findings naming THIS field count
            rec["tool_ok"] = (r.get("validation_status") == "VALIDATED" or len(case["fields"]) > 1) and not errs
            if not rec["tool_ok"] and not rec["err"]:
                rec["err"] = "octave_validate: %s %s" % (r.get("validation_status"), json.dumps(r.get("validation_errors") or r.get("errors"))[:160])
        except Exception as e:
            rec["err"] = "octave_validate raised %s" % type(e).__name__
    else:
        rec["tool_ok"] = True
    return rec


_cur = {}


def _wtext(fl):
    return fl["w"]


def _impossible_calendar(fl, clause):
    """ChainAccepts on a DATE / ISO8601 rule: the derived text has the shape the chain asks for but names an impossible calendar
    value (month 13, day 00, February 30, hour 24, minute 60, zone hour 24 ...): the grammar only fixes digit positions"""
    if fl["kind"] not in ("DateConstraint", "Iso8601Constraint"):
        return False
    w = fl["w"].strip('"')
    if fl["kind"] == "DateConstraint":
        if not re.fullmatch(r"\d{4}-\d{2}-\d{2}", w):
            return False
    elif not re.fullmatch(r"\d{4}-\d{2}-\d{2}(T\d{2}:\d{2}:\d{2}(Z|[+-]\d{2}:\d{2})?)?", w):
        return False
    try:
        datetime.datetime.fromisoformat(w.replace("Z", "+00:00"))
        return False            # a possible value that the chain still refuses is a different defect
    except ValueError:
        return True


MATCHERS = {"C13-impossible-calendar-values": _impossible_calendar}


def run(ctx):
    try:
        # REQ with CONST[""] / CONST[null] is unsatisfiable (REQ refuses the only value CONST allows): no grammar can be sound for it
        pool = set(gbnf.C13_CHAINS) - {"req_const_empty", "req_const_null"}
        if not ctx.thorough:
            pool = {k for k in pool if not k.startswith("opt_")}
        # two-field schemas: literals that print alike but are of different kinds (member "1" / number 1, "True" / true, "None" / null)
        res = ctx.model("Gbnf", constants={"NamePool": NAMES if ctx.thorough else {"STATUS"}, "ChainPool": pool, "PairNames": {"PRIORITY", "REVISION"},
                                           "PairChains": {"enum_ints", "const_one", "enum_bool_like", "const_true", "enum_null", "const_null"}},
                        invariants=["EmitCase"], required_actions=["One", "Two"])
        cases = [c for c in res.payload_lines() if not c["envelope"] or len(c["fields"]) > 1]
        comp = engine.parallel_map(compile_case, list(enumerate(cases)), chunk=8)
        rules, by_id = [], {}
        for c in comp:
            for r in c["rules"]:
                rules.append({"id": r["id"], "body": r["body"]})
                by_id[r["id"]] = (c["case"], r["kind"], r["text"], r["k"])
        if not rules:
            raise engine.Machinery("no field rule could be cut out of any compiled grammar")
        os.makedirs(ctx.scratch, exist_ok=True)
        rf = os.path.join(ctx.scratch, "rules.ndjson")
        with open(rf, "w", encoding="utf-8") as f:
            for r in rules:
                f.write(json.dumps(r, ensure_ascii=True) + "\n")
        res2 = ctx.model("Derive", tag="Derive", constants={"NamePool": set(), "ChainPool": set(), "PairNames": set(), "PairChains": set()}, init="DInit", next_="DNext",
                         invariants=["EmitDerived"], required_actions=["DPick"], env={"RULES_FILE": rf}, heap="8g")
        derived = []
        for d in res2.payload_lines():
            case, kind, rtext, k = by_id[d["rule"]]
            derived.append({"case": case, "rule": d["rule"], "kind": kind, "rtext": rtext, "k": k, "w": "".join(chr(c) for c in d["w"])})
        derived.sort(key=lambda d: (json.dumps(d["case"], sort_keys=True), d["rule"], d["w"]))
        recs = engine.parallel_map(replay, list(enumerate(derived)), chunk=200)
    finally:
        gbnf.cleanup()
    tr = [{k: r[k] for k in ("i", "read_ok", "key_ok", "chain_ok", "tool_ok")} for r in recs]
    fails = ctx.validate("Trace_Sound", tr)
    failures = []
    for r in recs:
        if r["i"] in fails:
            d = derived[r["i"]]
            failures.append({"i": r["i"], "case": {"schema": d["case"], "chain": gbnf.chain_text(d["case"]["fields"][d["k"]]["chain"]), "rule": d["rtext"]},
                             "kind": d["kind"], "w": d["w"], "obs": {k: r[k] for k in ("read_ok", "key_ok", "chain_ok", "tool_ok", "got", "err")},
                             "text": r["text"], "fails": fails[r["i"]]})
    skipped = [c for c in comp if not c["rules"]]
    ctx.notes.append("%d of %d generated schemas gave no judged field rule (%s)" % (
        len(skipped), len(comp), "; ".join(sorted({c["skipped"] for c in skipped if c["skipped"]}))[:600]))
    ctx.details["rules"] = len(rules)
    ctx.details["derived_strings"] = len(derived)
    return engine.report(
        ctx, failures=failures, matchers=MATCHERS, evaluations=len(recs), distinct_nontrivial=len({(json.dumps(d["case"], sort_keys=True), d["w"]) for d in derived}),
        rule="cases = reachable states of spec/Derive.tla: (field rule observed in a compiled grammar, string of Gbnf!Lang(rule)); schemas = "
             "reachable states of spec/Gbnf.tla over the C13 chain pool (quick: bare and REQ chains, one name; thorough: + OPT chains, "
             "second name); non-trivial = distinct (schema, derived string); evaluations = strings read and validated",
        samples=[{"chain": gbnf.chain_text(derived[k]["case"]["fields"][0]["chain"]), "derived": derived[k]["w"], "read": recs[k]["got"],
                  "chain_ok": recs[k]["chain_ok"], "tool_ok": recs[k]["tool_ok"]} for k in (0, len(derived) // 3, 2 * len(derived) // 3)],
        exhaustive=True,
        descr=lambda fl, clause: "chain=%s route=%s derived=%r read=%s %s" % (fl["case"]["chain"], fl["case"]["schema"]["route"], fl["w"], fl["obs"]["got"], fl["obs"]["err"]),
        assumptions=["chains are satisfiable: REQ∧CONST[\"\"] and REQ∧CONST[null] are not generated (REQ refuses the only value CONST allows)",
                     "ws in the field rule is taken as the empty derivation (the statement writes FIELD::value)",
                     "unbounded repetitions are enumerated for 0..2 (1..2) repetitions plus one repetition of the same string 20 times",
                     "digit classes are instantiated with 0 1 2 9; date-shaped rules with calendar boundary digits per position "
                     "(drivers/gbnf.py plans); languages above 1500 strings per rule are cut by dropping representatives",
                     "the reader is the strict reader (octave_mcp.core.parser.parse); META.CONTRACT chains are evaluated with the chain "
                     "parse_contract_field returns (octave_validate does not apply CONTRACT)"])
