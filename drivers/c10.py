"""C10 - validation_status is always present and never overstated.

model run : spec/Status.tla enumerates abstract calls (tool x content class x schema class x profile x flag sets)
replay    : every call is made on the real tools (ValidateTool, WriteTool, EjectTool, CompileGrammarTool, `octave validate`,
            `octave write`); a VALIDATED canonical text is validated a second time under the same schema and profile
validation: spec/Trace_Status.tla evaluates the decision lattice on the observed envelope
"""
from __future__ import annotations

import hashlib
import json
import os
import shutil
import tempfile

from mbt import engine
from drivers import common as _common
from drivers.common import run_async

GEN_SCHEMA = ('===GEN_S===\nMETA:\n  TYPE::PROTOCOL_DEFINITION\n  VERSION::"1.0"\n\nPOLICY:\n  VERSION::"1.0"\n  UNKNOWN_FIELDS::REJECT\n'
              '  TARGETS::[§SELF]\n\nFIELDS:\n  NAME::["example"∧REQ∧TYPE[STRING]→§SELF]\n  LEVEL::["low"∧OPT∧ENUM[low,high]→§SELF]\n===END===\n')
FROZEN_SCHEMA = GEN_SCHEMA.replace("GEN_S", "GEN_F")

_env = {}


def env():
    if not _env:
        d = tempfile.mkdtemp(prefix="c10.", dir=os.environ.get("VERIF_SCRATCH", "/var/tmp"))
        os.makedirs(os.path.join(d, "specs", "schemas"))
        with open(os.path.join(d, "specs", "schemas", "gen_s.oct.md"), "w", encoding="utf-8") as f:
            f.write(GEN_SCHEMA)
        with open(os.path.join(d, "specs", "schemas", "gen_w.oct.md"), "w", encoding="utf-8") as f:
            f.write(GEN_SCHEMA.replace("GEN_S", "GEN_W").replace("UNKNOWN_FIELDS::REJECT", "UNKNOWN_FIELDS::WARN"))
        with open(os.path.join(d, "specs", "schemas", "gen_u.oct.md"), "wb") as f:
            f.write(GEN_SCHEMA.replace("GEN_S", "GEN_U").encode("utf-16"))
        with open(os.path.join(d, "specs", "schemas", "gen_b.oct.md"), "wb") as f:
            f.write(b"===GEN_B===\nMETA:\n  TYPE::\xff\xfe\x80\x81\n===END===\n")
        home = os.path.join(d, "home")
        cache = os.path.join(home, ".octave", "standards")
        os.makedirs(cache)
        data = FROZEN_SCHEMA.encode("utf-8")
        dg = hashlib.sha256(data).hexdigest()
        with open(os.path.join(cache, dg[:16] + ".oct.md"), "wb") as f:
            f.write(data)
        other = GEN_SCHEMA.replace("GEN_S", "GEN_X").encode("utf-8")
        do = hashlib.sha256(other).hexdigest()
        bad = do[:16] + dg[16:]
        with open(os.path.join(cache, bad[:16] + ".oct.md"), "wb") as f:
            f.write(other)
        os.environ["HOME"] = home
        _env.update(dir=d, good="frozen@sha256:" + dg, bad="frozen@sha256:" + bad)
    os.chdir(_env["dir"])
    return _env


def schema_arg(cls):
    e = env()
    return {"builtin_meta": "META", "packaged_file": "DEBATE_TRANSCRIPT", "generated": "GEN_S", "generated_warn": "GEN_W", "unknown": "NO_SUCH_SCHEMA",
            "pathlike": "../specs/schemas/gen_s", "lowercase": "gen_s", "frozen_good": e["good"], "frozen_bad_digest": e["bad"],
            "frozen_malformed": "frozen@sha256:../../gen_s", "latest_missing": "latest", "generated_rewritten": "GEN_R", "generated_removed": "GEN_D", "generated_utf16": "GEN_U", "generated_binary": "GEN_B"}[cls]


def block_name(cls):
    return {"packaged_file": "DEBATE_TRANSCRIPT", "generated": "GEN_S", "generated_warn": "GEN_W", "frozen_good": "GEN_F", "frozen_bad_digest": "GEN_X",
            "generated_rewritten": "GEN_R", "generated_removed": "GEN_D"}.get(cls, "GEN_S")


PERMISSIVE = ('===GEN_R===\nMETA:\n  TYPE::PROTOCOL_DEFINITION\n  VERSION::"0.1"\n\nPOLICY:\n  VERSION::"1.0"\n  UNKNOWN_FIELDS::IGNORE\n'
              '  TARGETS::[§SELF]\n\nFIELDS:\n  NAME::["example"∧OPT→§SELF]\n  LEVEL::["low"∧OPT→§SELF]\n===END===\n')


def schema_history(scls, first_content):
    """what the process did with the schema name before the call (classes generated_rewritten / generated_removed)"""
    from octave_mcp.mcp.validate import ValidateTool
    d = env()["dir"]
    if scls == "generated_rewritten":
        sp = os.path.join(d, "specs", "schemas", "gen_r.oct.md")
        with open(sp, "w", encoding="utf-8") as f:
            f.write(PERMISSIVE)
        run_async(_common.tool("validate").execute(content=first_content, schema="GEN_R"))
        with open(sp, "w", encoding="utf-8") as f:
            f.write(GEN_SCHEMA.replace("GEN_S", "GEN_R"))
    elif scls == "generated_removed":
        sp = os.path.join(d, "specs", "schemas", "gen_d.oct.md")
        with open(sp, "w", encoding="utf-8") as f:
            f.write(GEN_SCHEMA.replace("GEN_S", "GEN_D"))
        run_async(_common.tool("validate").execute(content=first_content, schema="GEN_D"))
        os.unlink(sp)


CHANGES = {  # content class of the RESULT -> (class the file holds before, amendment)
    "invalid": ("valid", {"META.STATUS": "NONSENSE"}),
    "valid": ("invalid", {"META.STATUS": "ACTIVE", "META.VERSION": "1.0"}),
}


def content_for(ccls, scls):
    if ccls == "unparseable":
        return "===DOC===\nA::[1,2\nB::(\n"
    if ccls == "empty":
        return ""
    meta_ok = 'META:\n  TYPE::"TEST"\n  VERSION::"1.0"\n'
    meta = meta_ok
    if scls == "builtin_meta":
        if ccls == "invalid":
            meta = 'META:\n  TYPE::"TEST"\n  STATUS::NONSENSE\n'            # VERSION missing, STATUS not in the enum
        elif ccls == "strict_only":
            meta = meta_ok + '  AUTHOR::"someone"\n'
    body = ""
    if scls == "packaged_file":
        fields = ['THREAD_ID::"t-1"', 'TOPIC::"x"', "MODE::fixed", "STATUS::active", "PARTICIPANTS::[Wind,Wall]", "TURNS::[t1,t2]"]
        if ccls == "invalid":
            fields = [f for f in fields if not f.startswith("TOPIC")] + ["MODE::sideways"]
        if ccls == "extra_field":
            fields.append('UNDECLARED::"x"')
        body = "DEBATE_TRANSCRIPT:\n" + "".join("  %s\n" % f for f in fields)
    else:
        name = block_name(scls)
        fields = ['NAME::"a name"', "LEVEL::high"]
        if ccls == "invalid" and scls != "builtin_meta":
            fields = ["LEVEL::sideways"]                                       # NAME missing, LEVEL not in the enum
        if ccls == "extra_field":
            fields.append('UNDECLARED::"x"')
        body = "%s:\n" % name + "".join("  %s\n" % f for f in fields)
    return "===DOC===\n" + meta + body + "===END===\n"


def status_of(r):
    return str(r.get("validation_status")) if isinstance(r, dict) and "validation_status" in r else "MISSING"


def replay(item):
    i, case = item
    from click.testing import CliRunner
    from octave_mcp.cli.main import cli
    from octave_mcp.mcp.compile_grammar import CompileGrammarTool
    from octave_mcp.mcp.eject import EjectTool
    from octave_mcp.mcp.validate import ValidateTool
    from octave_mcp.mcp.write import WriteTool

    e = env()
    tool, ccls, scls, prof, flags = case["tool"], case["content"], case["schema"], case["profile"], set(case["flags"])
    prof = {"lower": prof.lower(), "title": prof.title()}.get(case.get("spell", "upper"), prof)     # the spelling the client used
    schema = schema_arg(scls)
    content = content_for(ccls, scls)
    obs = {"status": "MISSING", "valid": "-", "nerrors": 0, "has_name": False, "has_version": False, "again": "-", "exit": 9, "raised": "-"}
    try:
        if scls in ("generated_rewritten", "generated_removed"):
            schema_history(scls, content_for("valid", scls))
        if tool in ("write_changes", "cli_write_changes"):
            before_cls, amend = CHANGES[ccls]
            p = os.path.join(e["dir"], "a%d.oct.md" % os.getpid())
            with open(p, "w", encoding="utf-8") as f:
                f.write(content_for(before_cls, "builtin_meta"))
            if tool == "write_changes":
                kw = {"target_path": p, "changes": amend, "schema": schema}
                for f in ("corrections_only", "grammar_hint"):
                    if f in flags:
                        kw[f] = True
                r = run_async(_common.tool("write").execute(**kw))
                obs["status"] = status_of(r)
                obs["nerrors"] = len(r.get("validation_errors") or [])
                obs["has_name"], obs["has_version"] = "schema_name" in r, "schema_version" in r
                written = "corrections_only" not in flags and r.get("status") == "success"
            else:
                rr = CliRunner().invoke(cli, ["write", p, "--changes", json.dumps(amend), "--schema", schema], catch_exceptions=True)
                obs["exit"] = int(rr.exit_code)
                st = None
                for ln in rr.output.splitlines():
                    if ln.startswith("validation_status:"):
                        st = ln.split(":", 1)[1].strip()
                obs["status"] = st if st is not None else ("UNVALIDATED" if rr.exit_code != 0 else "MISSING")
                obs["has_name"] = obs["has_version"] = True
                import re
                obs["nerrors"] = len(re.findall(r"(?m)^\s+[EW]\d+\w*: ", rr.output)) or (1 if rr.exit_code != 0 else 0)
                written = rr.exit_code == 0
            if obs["status"] == "VALIDATED" and written:
                with open(p, encoding="utf-8") as f:
                    r2 = run_async(_common.tool("validate").execute(content=f.read(), schema=schema))
                obs["again"] = status_of(r2)
        elif tool == "validate":
            kw = {"content": content, "schema": schema, "profile": prof}
            for f in ("fix", "diff_only", "compact", "grammar_hint", "debug_grammar"):
                if f in flags:
                    kw[f] = True
            r = run_async(_common.tool("validate").execute(**kw))
            obs["status"] = status_of(r)
            obs["valid"] = "true" if r.get("valid") is True else ("false" if r.get("valid") is False else "-")
            obs["nerrors"] = max(len(r.get("validation_errors") or []), int(r.get("validation_error_count") or 0))
            obs["has_name"], obs["has_version"] = "schema_name" in r, "schema_version" in r
            if obs["status"] == "VALIDATED":
                canon = r.get("canonical")
                if canon is None:
                    canon = run_async(_common.tool("validate").execute(content=content, schema=schema, profile=prof, fix=("fix" in flags)))["canonical"]
                r2 = run_async(_common.tool("validate").execute(content=canon, schema=schema, profile=prof))
                obs["again"] = status_of(r2)
        elif tool == "write":
            p = os.path.join(e["dir"], "w%d.oct.md" % os.getpid())
            if os.path.exists(p):
                os.unlink(p)
            kw = {"target_path": p, "content": content, "schema": schema}
            for f in ("lenient", "corrections_only", "grammar_hint", "debug_grammar"):
                if f in flags:
                    kw[f] = True
            r = run_async(_common.tool("write").execute(**kw))
            obs["status"] = status_of(r)
            obs["nerrors"] = len(r.get("validation_errors") or [])
            obs["has_name"], obs["has_version"] = "schema_name" in r, "schema_version" in r
            if obs["status"] == "VALIDATED" and os.path.exists(p):
                with open(p, encoding="utf-8") as f:
                    canon = f.read()
                r2 = run_async(_common.tool("write").execute(target_path=p, content=canon, schema=schema, corrections_only=True))
                obs["again"] = status_of(r2)
        elif tool == "eject":
            mode = next((f[5:] for f in flags if f.startswith("mode_")), "canonical")
            fmt = next((f[4:] for f in flags if f.startswith("fmt_")), "octave")
            r = run_async(_common.tool("eject").execute(content=content if ccls != "empty" else None, schema=schema, mode=mode, format=fmt))
            obs["status"] = status_of(r)
        elif tool == "grammar":
            kw = {"format": "json_schema" if "json_schema" in flags else "gbnf"}
            if "by_content" in flags:
                kw["content"] = GEN_SCHEMA if ccls in ("valid", "strict_only") else content
            else:
                kw["schema"] = schema
            r = run_async(_common.tool("grammar").execute(**kw))
            obs["status"] = status_of(r)
        else:
            fp = os.path.join(e["dir"], "c%d.oct.md" % os.getpid())
            if tool == "cli_validate":
                with open(fp, "w", encoding="utf-8") as f:
                    f.write(content)
                args = ["validate", fp, "--schema", schema] + (["--fix"] if "fix" in flags else [])
            else:
                if os.path.exists(fp):
                    os.unlink(fp)
                args = ["write", fp, "--content", content, "--schema", schema]
            rr = CliRunner().invoke(cli, args, catch_exceptions=True)
            obs["exit"] = int(rr.exit_code)
            st = None
            for ln in rr.output.splitlines():
                if ln.startswith("validation_status:"):
                    st = ln.split(":", 1)[1].strip()
            # an error exit (unparseable content, refused input) prints no status line: that is the CLI's error envelope
            obs["status"] = st if st is not None else ("UNVALIDATED" if rr.exit_code != 0 else "MISSING")
            obs["has_name"] = obs["has_version"] = True
            import re
            obs["nerrors"] = len(re.findall(r"(?m)^\s+[EW]\d+\w*: ", rr.output)) or (1 if rr.exit_code != 0 else 0)
    except Exception as ex:
        obs["raised"] = type(ex).__name__
    return {"i": i, "case": case, "obs": obs}


def _cleanup():
    base = os.environ.get("VERIF_SCRATCH", "/var/tmp")
    for n in os.listdir(base):
        if n.startswith("c10."):
            shutil.rmtree(os.path.join(base, n), ignore_errors=True)


MATCHERS = {}


def run(ctx):
    try:
        res = ctx.model("Status", constants={"MaxFlags": 7 if ctx.thorough else 3}, invariants=["EmitCase"], required_actions=["Choose"])
        cases = list(res.payload_lines())
        recs = engine.parallel_map(replay, list(enumerate(cases)), chunk=50)
    finally:
        _cleanup()
    tr = [{"i": r["i"], "case": r["case"], "obs": {k: v for k, v in r["obs"].items() if k != "raised"}} for r in recs]
    fails = ctx.validate("Trace_Status", tr, constants={"MaxFlags": 0})
    failures = [{"i": r["i"], "case": r["case"], "obs": r["obs"], "fails": fails[r["i"]]} for r in recs if r["i"] in fails]
    return engine.report(
        ctx, failures=failures, matchers=MATCHERS, evaluations=len(recs),
        distinct_nontrivial=sum(1 for c in cases if c["flags"] or c["content"] != "valid" or c["schema"] not in ("builtin_meta",)),
        rule="cases = reachable states of spec/Status.tla: tool x content class x schema class x profile (validate) x every flag set "
             "with <= MaxFlags flags on (quick 2, thorough all); non-trivial = any flag on, or content not valid, or schema not the "
             "builtin one",
        samples=[{"case": recs[k]["case"], "obs": recs[k]["obs"]} for k in (7, len(recs) // 3, 2 * len(recs) // 3)], exhaustive=True,
        descr=lambda fl, clause: "call=%s observed=%s" % (json.dumps(fl["case"], sort_keys=True), json.dumps(fl["obs"], sort_keys=True)),
        assumptions=["content classes are concretised per schema class by the harness (one valid / invalid / strict-only-invalid "
                     "document each); 'empty' content is DontCare for the blocking-error clause",
                     "eject and compile_grammar never apply a schema: any VALIDATED from them is an overstatement",
                     "frozen@/latest references are resolved from a cache under a temporary HOME"])
