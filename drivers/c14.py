"""C14 - projections only remove, and say so: no invention, honest lossy flag.

model run : spec/Projection.tla enumerates trees with the filter keys of both lossy modes at top level and nested, blocks,
            section markers, duplicate keys and values of every kind
replay    : octave_eject and `octave eject` in 4 modes x 4 formats; the leaves (path, abstract value) of every output are
            extracted (OCTAVE re-read with the real reader, json.loads, yaml.safe_load, a markdown leaf scan)
validation: spec/Trace_Projection.tla recomputes Leaves(tree) and judges NoInvention / Complete / Honest / FormatsAgree
"""
from __future__ import annotations

import json
import os
import re
import shutil
import tempfile

from mbt import engine
from drivers import common as _common
from mbt.engine import enc
from drivers.common import run_async
from drivers.docs import chunk_text, pv

MODES = ["canonical", "authoring", "executive", "developer"]
FORMATS = ["octave", "json", "yaml", "markdown"]


def leaves_octave(text):
    from octave_mcp.core.ast_nodes import Assignment, Block, Section
    from octave_mcp.core.parser import parse
    out = []

    def walk(nodes, path):
        for n in nodes:
            if isinstance(n, Assignment):
                out.append({"path": path + [enc(n.key)], "v": pv(n.value)})
            elif isinstance(n, (Block, Section)):
                walk(n.children, path + [enc(n.key)])

    walk(parse(text).sections, [])
    return out


def nat(v):
    """native JSON/YAML value -> abstract value (vocabulary of spec/Values.tla)"""
    if v is None:
        return {"t": "null", "s": "", "xs": []}
    if isinstance(v, bool):
        return {"t": "bool", "s": "true" if v else "false", "xs": []}
    if isinstance(v, int):
        return {"t": "int", "s": str(v), "xs": []}
    if isinstance(v, float):
        return {"t": "float", "s": repr(v), "xs": []}
    if isinstance(v, str):
        # a holographic value is exported as its canonical text
        if v.startswith("[") and "∧" in v:
            return {"t": "holo", "s": enc(v), "xs": []}
        return {"t": "str", "s": enc(v), "xs": []}
    if isinstance(v, list):
        xs = []
        for it in v:
            if isinstance(it, dict) and not it.get("__literal_zone__"):
                for k, val in it.items():
                    xs.append({"t": "pair", "s": enc(str(k)), "xs": [nat(val)]})
            else:
                xs.append(nat(it))
        return {"t": "list", "s": "", "xs": xs}
    if isinstance(v, dict) and v.get("__literal_zone__"):
        c = v.get("content", "")
        return {"t": "zone", "s": "%d:%s" % (len(v.get("fence_marker", "")), enc(v.get("info_tag") or "")),
                "xs": [{"t": "ln", "s": enc(x), "xs": []} for x in (c.split("\n") if c != "" else [])]}
    return {"t": "other", "s": "", "xs": []}


def leaves_native(obj):
    out = []

    def walk(d, path):
        for k, v in d.items():
            if path == [] and k == "META":
                continue
            if isinstance(v, dict) and not v.get("__literal_zone__"):
                walk(v, path + [enc(str(k))])
            else:
                out.append({"path": path + [enc(str(k))], "v": nat(v)})

    if isinstance(obj, dict):
        walk(obj, [])
    return out


_MD_LEAF = re.compile(r"^(?:- )?\*\*(.+?)\*\*: ")


def leaves_markdown(text):
    out = []
    fence = None
    for ln in text.split("\n"):
        if fence:
            if ln.strip() == fence:
                fence = None
            continue
        m = _MD_LEAF.match(ln)
        if m:
            rest = ln[m.end():]
            out.append({"path": [enc(m.group(1))], "v": {"t": "md", "s": enc(rest), "xs": []}})
            if rest.startswith("```"):
                fence = rest[: len(rest) - len(rest.lstrip("`"))]
    return out


def extract(fmt, output):
    if fmt == "octave":
        return leaves_octave(output)
    if fmt == "json":
        return leaves_native(json.loads(output))
    if fmt == "yaml":
        import yaml
        return leaves_native(yaml.safe_load(output))
    return leaves_markdown(output)


_st = {}


def replay(item):
    i, case = item
    from click.testing import CliRunner
    from octave_mcp.cli.main import cli
    from octave_mcp.mcp.eject import EjectTool

    if not _st:
        _st["dir"] = tempfile.mkdtemp(prefix="c14.", dir=os.environ.get("VERIF_SCRATCH", "/var/tmp"))
    text = "\n".join("".join(chunk_text(c) for c in ln) for ln in case["lines"]) + "\n"
    fp = os.path.join(_st["dir"], "e%d.oct.md" % os.getpid())
    with open(fp, "w", encoding="utf-8") as f:
        f.write(text)
    obs = []
    et = _common.tool("eject")
    for mode in MODES:
        for fmt in FORMATS:
            o = {"route": "tool", "mode": mode, "format": fmt, "ok": False, "lossy": "-", "leaves": []}
            try:
                r = run_async(et.execute(content=text, schema="META", mode=mode, format=fmt))
                o["lossy"] = "true" if r.get("lossy") is True else ("false" if r.get("lossy") is False else "-")
                o["leaves"] = extract(fmt, r["output"])
                o["ok"] = True
            except Exception as e:
                o["err"] = type(e).__name__
            obs.append(o)
            o = {"route": "cli", "mode": mode, "format": fmt, "ok": False, "lossy": "-", "leaves": []}
            try:
                rr = CliRunner().invoke(cli, ["eject", fp, "--mode", mode, "--format", fmt], catch_exceptions=True)
                if rr.exit_code == 0:
                    o["leaves"] = extract(fmt, rr.output)
                    o["ok"] = True
            except Exception as e:
                o["err"] = type(e).__name__
            obs.append(o)
    # history: the same content is asked for again in the complete modes AFTER the lossy ones were served by this process
    for mode in ("canonical", "authoring"):
        for fmt in ("octave", "json"):
            o = {"route": "tool_again", "mode": mode, "format": fmt, "ok": False, "lossy": "-", "leaves": []}
            try:
                r = run_async(et.execute(content=text, schema="META", mode=mode, format=fmt))
                o["lossy"] = "true" if r.get("lossy") is True else ("false" if r.get("lossy") is False else "-")
                o["leaves"] = extract(fmt, r["output"])
                o["ok"] = True
            except Exception as e:
                o["err"] = type(e).__name__
            obs.append(o)
    # mode names as a client may spell them (the tool does not enforce the enumeration): whatever view comes back, a view that dropped
    # something says lossy=true (only NoInvention / Honest / FormatsAgree apply: these are not the complete modes' names)
    for mode in ("Executive", "DEVELOPER ", " developer", "EXECUTIVE", "bogus"):
        for fmt in ("octave", "json"):
            o = {"route": "tool_spelled", "mode": mode, "format": fmt, "ok": False, "lossy": "-", "leaves": []}
            try:
                r = run_async(et.execute(content=text, schema="META", mode=mode, format=fmt))
                o["lossy"] = "true" if r.get("lossy") is True else ("false" if r.get("lossy") is False else "-")
                o["leaves"] = extract(fmt, r["output"])
                o["ok"] = True
            except Exception as e:
                o["err"] = type(e).__name__
            obs.append(o)
    return {"i": i, "case": {"body": case["body"]}, "obs": obs, "text": text}


def _cleanup():
    base = os.environ.get("VERIF_SCRATCH", "/var/tmp")
    for n in os.listdir(base):
        if n.startswith("c14."):
            shutil.rmtree(os.path.join(base, n), ignore_errors=True)


def _fmt_of(clause):
    return clause.rsplit("/", 1)[-1]


def _leaf_info(body):
    """(path tuple) -> set of reasons a json/yaml/markdown view is known to lose it: 'sec' (under a section), 'dup' (an
    earlier sibling with the same key exists or it is overwritten by a later one)"""
    info = {}
    stack = []           # [(depth, key, kind)]
    seen = {}
    for it in body:
        while stack and stack[-1][0] >= it["d"]:
            stack.pop()
        parent = tuple(k for _, k, _ in stack)
        path = parent + (it["key"],)
        under = any(kind == "section" for _, _, kind in stack)
        cnt = seen.get(path, 0)
        seen[path] = cnt + 1
        if it["k"] == "assign":
            info.setdefault(path, set())
            if under:
                info[path].add("sec")
        if it["k"] in ("block", "section"):
            stack.append((it["d"], it["key"], it["k"]))
    for path, n in seen.items():
        if n > 1:
            # every leaf at or below a duplicated path may be lost / merged
            for p2 in list(info):
                if p2[:len(path)] == path:
                    info[p2].add("dup")
    return info


def _explained(fl, clause, reason):
    view = clause.split(":", 1)[1]
    o = next((x for x in fl["views"] if "%s/%s/%s" % (x["route"], x["mode"], x["format"]) == view), None)
    if o is None or clause.split(":")[0] not in ("Complete", "Honest", "FormatsAgree"):
        return False
    info = _leaf_info(fl["case"]["body"])
    ref = {tuple(p) for p in fl["ref_paths"].get("%s/%s" % (o["route"], o["mode"]), [])}
    got = {tuple(p) for p in o["paths"]}
    if o["format"] == "markdown":
        ref = {p[-1:] for p in ref}
        missing = {p for p in ref if p not in got}
        reasons = set()
        for p in missing:
            rs = set().union(*[v for k, v in info.items() if k[-1:] == p]) if any(k[-1:] == p for k in info) else set()
            if not rs:
                return False
            reasons |= rs
        return reason in reasons and not (got - ref)
    missing = ref - got
    if got - ref:
        return False
    if not missing:
        # same paths, different leaf sets: one of two leaves that share a path (a duplicated key) was dropped
        return reason == "dup" and any("dup" in v for v in info.values())
    reasons = set()
    for p in missing:
        rs = info.get(p, set())
        if not rs:
            return False
        reasons |= rs
    return reason in reasons


def _sections_skipped(fl, clause):
    """json/yaml/markdown converters skip section markers: every leaf the view lacks sits under a section (or is a duplicate)"""
    return _fmt_of(clause) in ("json", "yaml", "markdown") and _explained(fl, clause, "sec")


def _dup_keys(fl, clause):
    """a JSON/YAML object cannot hold a key twice: every leaf the view lacks is at a duplicated path (or under a section)"""
    return _fmt_of(clause) in ("json", "yaml") and _explained(fl, clause, "dup")


MATCHERS = {"C14-converters-skip-sections": _sections_skipped, "C14-json-yaml-duplicate-keys": _dup_keys}


def run(ctx):
    try:
        keys = {"STATUS", "TESTS", "NAME", "GRP"}
        if ctx.thorough:
            runs = [("three", dict(MaxItems=3, MaxDepth=2, KeyPool=keys, ValPool={"w", "one", "fzero", "l01", "lmap", "zblank3", "holo", "null"})),
                    ("two", dict(MaxItems=2, MaxDepth=1, KeyPool=keys, ValPool={"w", "two", "int", "zero", "one", "fzero", "fone", "t", "f", "l2", "l01", "lmap", "lq", "z1", "ztab",
                                                                                  "ztrail", "zblank3", "holo", "null", "flow"})),     # (multi-line strings: the Markdown leaf scan reads one line)
                    ("four", dict(MaxItems=4, MaxDepth=3, KeyPool={"STATUS", "NAME", "GRP"}, ValPool={"w"}))]
        else:
            runs = [("two", dict(MaxItems=2, MaxDepth=1, KeyPool=keys, ValPool={"w", "two", "int", "zero", "one", "fone", "t", "l2", "l01", "lmap", "lq", "z1", "zblank3", "ztab", "holo", "null", "flow"})),
                    ("three", dict(MaxItems=3, MaxDepth=2, KeyPool={"STATUS", "NAME", "GRP"}, ValPool={"w"}))]
        cases, seen = [], set()
        for tag, consts in runs:
            res = ctx.model("Projection", tag="Projection_" + tag, constants=consts, invariants=["EmitCase", "WellFormed"],
                            required_actions=["Add"])
            for c in res.payload_lines():
                k = json.dumps(c["body"], sort_keys=True)
                if k not in seen:
                    seen.add(k)
                    cases.append(c)
        recs = engine.parallel_map(replay, list(enumerate(cases)), chunk=20)
    finally:
        _cleanup()
    tr = [{"i": r["i"], "case": r["case"], "obs": [{k: v for k, v in o.items() if k != "err"} for o in r["obs"]]} for r in recs]
    fails = ctx.validate("Trace_Projection", tr, constants=dict(MaxItems=0, MaxDepth=0, KeyPool=set(), ValPool=set()))
    failures = []
    for r in recs:
        if r["i"] not in fails:
            continue
        views = [{"route": o["route"], "mode": o["mode"], "format": o["format"], "ok": o["ok"], "lossy": o["lossy"],
                  "paths": [x["path"] for x in o["leaves"]]} for o in r["obs"]]
        ref = {"%s/%s" % (v["route"], v["mode"]): v["paths"] for v in views if v["format"] == "octave" and v["ok"]}
        failures.append({"i": r["i"], "case": r["case"], "obs": [{k: v for k, v in vw.items() if k != "paths"} for vw in views][:8],
                         "views": views, "ref_paths": ref, "text": r["text"], "fails": fails[r["i"]]})
    return engine.report(
        ctx, failures=failures, matchers=MATCHERS, evaluations=sum(len(r["obs"]) for r in recs),
        distinct_nontrivial=sum(1 for c in cases if len(c["body"]) >= 2),
        rule="cases = reachable states of spec/Projection.tla for the constant sets in model_runs (trees of <= MaxItems items); "
             "non-trivial = tree of >= 2 items; evaluations = (tree, route, mode, format) views",
        samples=[{"text": recs[k]["text"], "views": [(o["mode"], o["format"], o["lossy"], len(o["leaves"])) for o in recs[k]["obs"][:8]]}
                 for k in (3, len(recs) // 2)], exhaustive=True,
        descr=lambda fl, clause: "input=%r" % fl["text"][:160],
        assumptions=["what a lossy mode keeps is not prescribed; only subset / completeness / honesty / agreement are judged",
                     "markdown has no syntax for which block a leaf after a nested block belongs to, nor for value kinds: it is "
                     "judged on leaf keys only",
                     "the CLI prints no lossy flag: its views are judged for NoInvention / Complete / FormatsAgree"])
