"""One-loop stage (hosted by the C17, C18 and C06 checks): calls in flight together on ONE asyncio loop.

model run : spec/OneLoop.tla - every multiset of 2 (thorough: 3) call kinds {content / one-key amendments / preview} x {with, without
            base_hash} x document size {small, big (> 64 Ki characters)}; for each case the specification computes the outcomes of all
            serial orders
replay    : one long-lived WriteTool, one fresh event loop, the calls started together with asyncio.gather; os.replace is interposed with
            a rendezvous (a call that reached the install step waits a bounded time for the others to get there too), so that an
            implementation which suspends between reading the file and installing the new text shows the lost update instead of hiding it
validation: spec/Trace_OneLoop.tla - the observed results and final file must be one of the serial outcomes
"""
from __future__ import annotations

import asyncio
import hashlib
import os
import shutil
import tempfile
import threading

from mbt import engine

PAD = "x" * 70000


def _doc(vals, size):
    lines = ["===DOC==="]
    for k in ("A", "B", "C"):
        if vals.get(k) is not None:
            lines.append("%s::%s" % (k, vals[k]))
    if size == "big":
        lines.append('PAD::"%s"' % PAD)
    lines.append("===END===")
    return "\n".join(lines) + "\n"


def _kwargs(kind, wid, target, base, size):
    kw = {"target_path": target}
    if kind.startswith("content"):
        kw["content"] = _doc({"A": wid, "B": wid, "C": wid}, size)
    elif kind.startswith("setB"):
        kw["changes"] = {"B": wid}
    elif kind == "setC_n":
        kw["changes"] = {"C": wid}
    elif kind == "delC_n":
        kw["changes"] = {"C": {"$op": "DELETE"}}
    elif kind == "nullB_n":
        kw["changes"] = {"B": None}
    elif kind == "dry_n":
        kw["changes"] = {"A": wid}
        kw["corrections_only"] = True
    if kind.endswith("_b"):
        kw["base_hash"] = base
    return kw


_tool = {}


def replay(item):
    i, case = item
    from octave_mcp.core.parser import parse
    from octave_mcp.mcp.write import WriteTool
    if "w" not in _tool:
        _tool["w"] = WriteTool()
    tool = _tool["w"]
    root = tempfile.mkdtemp(prefix="oneloop.", dir=os.environ.get("VERIF_SCRATCH", "/var/tmp"))
    target = os.path.join(root, "doc.oct.md")
    # what the file holds first is what the tool itself writes for the initial content (so that every hash is the hash of real bytes)
    init = _doc({"A": "init", "B": "init", "C": "init"}, case["size"])
    loop = asyncio.new_event_loop()
    try:
        r0 = loop.run_until_complete(tool.execute(target_path=target, content=init))
        if r0.get("status") != "success":
            raise engine.Machinery("one-loop: the initial write was refused: %r" % (r0.get("errors"),))
        with open(target, "rb") as f:
            base = hashlib.sha256(f.read()).hexdigest()
        n = len(case["calls"])
        real_replace = os.replace
        cv = threading.Condition()
        arrived = [0]

        def rendezvous(src, dst, *a, **kw):
            if os.path.abspath(os.fspath(dst)) == target:
                with cv:
                    arrived[0] += 1
                    cv.notify_all()
                    cv.wait_for(lambda: arrived[0] >= n, 0.15)
            return real_replace(src, dst, *a, **kw)

        suspended = [False] * n

        async def one(j, kw):
            try:
                r = await tool.execute(**kw)
            except Exception as e:  # noqa
                return "raised:" + type(e).__name__
            if r.get("status") == "success":
                return "ok"
            codes = [str(e.get("code")) for e in r.get("errors", [])]
            return "E_HASH" if "E_HASH" in codes else ",".join(codes) or "error"

        async def all_():
            return await asyncio.gather(*[one(j, _kwargs(k, "w%d" % (j + 1), target, base, case["size"])) for j, k in enumerate(case["calls"])])

        os.replace = rendezvous
        try:
            res = loop.run_until_complete(asyncio.wait_for(all_(), 60))
        finally:
            os.replace = real_replace
        with open(target, encoding="utf-8") as f:
            text = f.read()
        final = {}
        try:
            doc = parse(text)
            got = {getattr(s, "key", None): getattr(s, "value", None) for s in doc.sections}
            for k in ("A", "B", "C"):
                final[k] = "absent" if k not in got else ("null" if got[k] is None else str(got[k]))
        except Exception as e:  # noqa
            final = {k: "unreadable:" + type(e).__name__ for k in ("A", "B", "C")}
        left = sorted(x for x in os.listdir(root) if x != "doc.oct.md")
    finally:
        loop.close()
        shutil.rmtree(root, ignore_errors=True)
    return {"i": i, "case": case, "obs": {"res": list(res), "final": final, "leftovers": left}}


def run_oneloop(ctx, kinds=None):
    """-> (failures, evaluations)"""
    kinds = kinds or {"content_b", "content_n", "setB_b", "setB_n", "setC_n", "delC_n", "nullB_n", "dry_n"}
    res = ctx.model("OneLoop", tag="OneLoop", constants={"CallKinds": set(kinds), "Sizes": {"small", "big"}, "MaxCalls": 3 if ctx.thorough else 2},
                    invariants=["EmitCase", "AtMostOneBaseWinner", "UnnamedKeysKept"], required_actions=["AddCall", "Close"])
    cases = list(res.payload_lines())
    outs = engine.parallel_map(replay, list(enumerate(cases, start=1)), chunk=max(1, len(cases) // 32))
    fails = ctx.validate("Trace_OneLoop", outs, tag="Trace_OneLoop", constants={"CallKinds": set(), "Sizes": {"small"}, "MaxCalls": 0})
    failures = []
    for r in outs:
        if r["i"] in fails:
            failures.append({"i": 2 * 10 ** 6 + r["i"], "case": {"one_loop": {"calls": r["case"]["calls"], "size": r["case"]["size"]}},
                             "obs": r["obs"], "fails": fails[r["i"]]})
    return failures, len(outs)
