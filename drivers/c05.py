"""C05 - literal zones pass through every pipeline byte-for-byte.

model run : spec/Zones.tla (fence length x tag x content lines over a syntax-colliding line alphabet x document shape)
replay    : every case through parse, canonicalise, validate (fix off/on), write (content, lenient, changes on another
            key, normalize), seal, eject canonical (octave, json); zones are extracted from output TEXT by an independent
            fence scanner, from ASTs and from the __literal_zone__ objects of the JSON view
validation: spec/Trace_Zones.tla recomputes the expected zones / neighbouring nodes and names the failing route
"""
from __future__ import annotations

import json
import os
import shutil
import tempfile

from mbt import engine
from mbt.engine import enc
from drivers.common import run_async
from drivers.docs import chunk_text

ROUTES = ["parse", "canon", "validate_nofix", "validate_fix", "write_content", "write_lenient", "write_changes",
          "write_normalize", "seal", "eject_octave", "eject_json"]


def scan_zones(text):
    """Independent line scanner: [(fence_len, tag, [lines])] of the literal zones in a text."""
    out = []
    lines = text.split("\n")
    i = 0
    while i < len(lines):
        s = lines[i].lstrip(" ")
        if s.startswith("```"):
            n = len(s) - len(s.lstrip("`"))
            tag = s[n:].strip()
            j = i + 1
            body = []
            closed = False
            while j < len(lines):
                if lines[j].lstrip(" ") == "`" * n:
                    closed = True
                    break
                body.append(lines[j])
                j += 1
            out.append({"fence": n, "tag": enc(tag), "lines": [enc(x) for x in body], "closed": closed})
            i = j + 1
        else:
            i += 1
    return out


def ast_zones(doc):
    from octave_mcp.core.ast_nodes import Assignment, Block, LiteralZoneValue, Section

    out = []

    def walk(nodes):
        for n in nodes:
            if isinstance(n, Assignment) and isinstance(n.value, LiteralZoneValue):
                v = n.value
                out.append({"fence": len(v.fence_marker), "tag": enc(v.info_tag or ""),
                            "lines": [enc(x) for x in (v.content.split("\n") if v.content != "" else [])], "closed": True})
            elif isinstance(n, (Block, Section)):
                walk(n.children)

    walk(doc.sections)
    return out


def ast_others(doc, drop=()):
    from octave_mcp.core.ast_nodes import Assignment, Block, Section

    out = []

    def walk(nodes, d):
        for n in nodes:
            if isinstance(n, Assignment):
                if n.key not in drop:
                    out.append([d, enc(n.key)])
            elif isinstance(n, (Block, Section)):
                if n.key not in drop:
                    out.append([d, enc(n.key)])
                    walk(n.children, d + 1)

    walk(doc.sections, 0)
    return out


def json_zones(obj):
    out = []

    def walk(o):
        if isinstance(o, dict):
            if o.get("__literal_zone__") is True:
                c = o.get("content", "")
                out.append({"fence": len(o.get("fence_marker", "")), "tag": enc(o.get("info_tag") or ""),
                            "lines": [enc(x) for x in (c.split("\n") if c != "" else [])], "closed": True})
                return
            for v in o.values():
                walk(v)
        elif isinstance(o, list):
            for v in o:
                walk(v)

    walk(obj)
    return out


_st = {}


def _tools():
    if not _st:
        from octave_mcp.mcp.eject import EjectTool
        from octave_mcp.mcp.validate import ValidateTool
        from octave_mcp.mcp.write import WriteTool

        _st.update(v=ValidateTool(), w=WriteTool(), e=EjectTool(),
                   dir=tempfile.mkdtemp(prefix="c05.", dir=os.environ.get("VERIF_SCRATCH", "/var/tmp")))
    return _st


def _from_text(route, text, drop=()):
    from octave_mcp.core.parser import parse

    zs = scan_zones(text)
    try:
        others = ast_others(parse(text), drop)
    except Exception as e:
        return {"route": route, "ok": False, "zones": [], "others": [], "err": "reparse:" + type(e).__name__}
    if not all(z["closed"] for z in zs):
        return {"route": route, "ok": False, "zones": [], "others": [], "err": "unclosed zone in output"}
    return {"route": route, "ok": True, "zones": [{k: z[k] for k in ("fence", "tag", "lines")} for z in zs],
            "others": others, "err": "-"}


def _fail(route, why):
    return {"route": route, "ok": False, "zones": [], "others": [], "err": why}


def replay(item):
    from octave_mcp.core.emitter import emit
    from octave_mcp.core.parser import parse
    from octave_mcp.core.sealer import seal_document

    i, case = item
    st = _tools()
    final = "" if case["z"]["shape"] == "last" else "\n"
    text = "\n".join("".join(chunk_text(c) for c in ln) for ln in case["lines"]) + final
    obs = []
    # parse
    try:
        doc = parse(text)
        obs.append({"route": "parse", "ok": True, "zones": [{k: z[k] for k in ("fence", "tag", "lines")} for z in ast_zones(doc)],
                    "others": ast_others(doc), "err": "-"})
    except Exception as e:
        doc = None
        obs.append(_fail("parse", type(e).__name__))
    # canonicalise
    try:
        obs.append(_from_text("canon", emit(parse(text))))
    except Exception as e:
        obs.append(_fail("canon", type(e).__name__))
    # validate fix off / on
    for route, fix in (("validate_nofix", False), ("validate_fix", True)):
        try:
            r = run_async(st["v"].execute(content=text, schema="META", fix=fix))
            obs.append(_from_text(route, r["canonical"]) if r.get("status") == "success" else _fail(route, "status=error"))
        except Exception as e:
            obs.append(_fail(route, type(e).__name__))
    # write: content, lenient content, changes on another key, normalize
    p = os.path.join(st["dir"], "z%d.oct.md" % os.getpid())
    for route, kw in (("write_content", {}), ("write_lenient", {"lenient": True})):
        try:
            if os.path.exists(p):
                os.unlink(p)
            r = run_async(st["w"].execute(target_path=p, content=text, **kw))
            if r.get("status") != "success":
                obs.append(_fail(route, "status=error:" + ",".join(str(e.get("code")) for e in r.get("errors", []))))
            else:
                with open(p, encoding="utf-8", newline="") as f:
                    obs.append(_from_text(route, f.read()))
        except Exception as e:
            obs.append(_fail(route, type(e).__name__))
    try:
        r = run_async(st["w"].execute(target_path=p, changes={"NEWKEY": "x y"}))
        if r.get("status") != "success":
            obs.append(_fail("write_changes", "status=error"))
        else:
            with open(p, encoding="utf-8", newline="") as f:
                obs.append(_from_text("write_changes", f.read(), drop=("NEWKEY",)))
    except Exception as e:
        obs.append(_fail("write_changes", type(e).__name__))
    try:
        with open(p, "w", encoding="utf-8", newline="") as f:
            f.write(text)
        r = run_async(st["w"].execute(target_path=p))
        if r.get("status") != "success":
            obs.append(_fail("write_normalize", "status=error"))
        else:
            with open(p, encoding="utf-8", newline="") as f:
                obs.append(_from_text("write_normalize", f.read()))
    except Exception as e:
        obs.append(_fail("write_normalize", type(e).__name__))
    # seal
    try:
        obs.append(_from_text("seal", emit(seal_document(parse(text))), drop=("SEAL",)))
    except Exception as e:
        obs.append(_fail("seal", type(e).__name__))
    # eject canonical
    try:
        r = run_async(st["e"].execute(content=text, schema="META", mode="canonical", format="octave"))
        obs.append(_from_text("eject_octave", r["output"]))
    except Exception as e:
        obs.append(_fail("eject_octave", type(e).__name__))
    try:
        r = run_async(st["e"].execute(content=text, schema="META", mode="canonical", format="json"))
        zs = json_zones(json.loads(r["output"]))
        # the JSON view has no depth/order vocabulary of its own: neighbours are judged on the other routes
        obs.append({"route": "eject_json", "ok": True, "zones": [{k: z[k] for k in ("fence", "tag", "lines")} for z in zs],
                    "others": [], "err": "-"})
    except Exception as e:
        obs.append(_fail("eject_json", type(e).__name__))
    return {"i": i, "case": {"z": case["z"]}, "obs": obs, "text": text}


def _cleanup():
    base = os.environ.get("VERIF_SCRATCH", "/var/tmp")
    for n in os.listdir(base):
        if n.startswith("c05."):
            shutil.rmtree(os.path.join(base, n), ignore_errors=True)


def _known_bare_sibling(fl, clause):
    return fl["case"]["z"]["shape"] == "baresib" and (clause.startswith("Neighbours:") or clause.startswith("ZonesPreserved:")
                                                      or clause.startswith("Accepted:"))


def _known_single_empty_line(fl, clause):
    return fl["case"]["z"]["ls"] == ["empty"] and clause.startswith("ZonesPreserved:")


def _known_json_sections(fl, clause):
    return clause == "ZonesPreserved:eject_json" and fl["case"]["z"]["shape"] == "sec"


MATCHERS = {"C05-bare-zone-releases-siblings": _known_bare_sibling,
            "C05-single-empty-line-zone": _known_single_empty_line,
            "C05-json-view-drops-sections": _known_json_sections}


def run(ctx):
    shapes = {"top", "d1", "d3", "sec", "bare", "baresib", "two", "tworev", "three", "cmt", "last", "closedeep"}
    want = json.load(open(ctx.replay))["case"] if ctx.replay else None
    if ctx.thorough or want is not None:
        consts = dict(MaxLines=3, Fences={3, 4, 5, 6}, Shapes=shapes)
    else:
        consts = dict(MaxLines=2, Fences={3, 4, 6}, Shapes=shapes)
    res = ctx.model("Zones", constants=consts, invariants=["EmitCase", "ShortRunsOnly"], required_actions=["AddLine"])
    cases = list(res.payload_lines())
    if want is not None:
        wz = want.get("z", want)
        cases = [c for c in cases if c["z"] == wz]
    elif ctx.thorough:
        # thorough: all zones of <= 2 lines in every shape; 3-line zones in the shapes that differ in how the zone is reached
        cases = [c for c in cases if len(c["z"]["ls"]) <= 2 or (c["z"]["shape"] in ("top", "d1", "bare", "tworev") and c["z"]["tag"] != "python")]
    elif not ctx.thorough:
        # quick: all single-line zones, and two-line zones for the plain shapes only
        cases = [c for c in cases if len(c["z"]["ls"]) <= 1 or c["z"]["shape"] in ("top", "d1", "sec", "bare", "tworev", "closedeep")]
    try:
        records = engine.parallel_map(replay, list(enumerate(cases)), chunk=50)
    finally:
        _cleanup()
    trace = [{"i": r["i"], "case": r["case"], "obs": [{k: v for k, v in o.items() if k != "err"} for o in r["obs"]]}
             for r in records]
    fails = ctx.validate("Trace_Zones", trace, constants=dict(MaxLines=0, Fences={3}, Shapes={"top"}))
    failures = [{"i": r["i"], "case": r["case"], "obs": [o for o in r["obs"] if not o["ok"] or True][:12], "text": r["text"],
                 "fails": fails[r["i"]]} for r in records if r["i"] in fails]
    nontrivial = sum(1 for c in cases if c["z"]["ls"])
    samples = [{"text": r["text"], "routes_ok": [o["route"] for o in r["obs"] if o["ok"]]} for r in records[7::max(1, len(records) // 4)]][:4]
    return engine.report(
        ctx, failures=failures, matchers=MATCHERS, evaluations=sum(len(r["obs"]) for r in records),
        distinct_nontrivial=nontrivial,
        rule="cases = reachable states of spec/Zones.tla (shape x fence x tag x content lines), complete for the constants in "
             "model_runs (quick: two-line zones only for shapes top/d1/sec/bare); non-trivial = zone has >= 1 content line; "
             "evaluations = (case, pipeline) pairs",
        samples=samples, exhaustive=True,
        descr=lambda fl, clause: "input=%r" % fl["text"][:200],
        assumptions=["zones are extracted from output text by the harness's own fence scanner (same rule as Surface!IsFenceOpen/"
                     "IsFenceClose), not by the implementation's lexer",
                     "neighbouring nodes of text outputs are read back with the real strict reader (their values are C02's subject)",
                     "the JSON view is judged on zones only (it has no depth vocabulary)"],
        extra_coverage={"routes": ROUTES})
