"""C16 - writes are all-or-nothing at every interruption point.

design model : spec/AtomicWrite.tla (the write procedure, one action per file-system call, fault and kill actions)
               model-checked by TLC for Atomic / ErrorClean / SuccessExact in every reachable state
fault plans  : spec/FaultPlans.tla enumerates, over the observed healthy call sequence of each scenario, a fault of each
               errno at each call, pairs of faults, and a kill before each call
replay       : every plan is executed on the real code (WriteTool.execute, atomic_write_octave, `octave write`) with
               file-system interposition (drivers/fsio.py); kills are real (forked child, os._exit at the call)
validation   : spec/Trace_FileSys.tla executes the recorded calls on the abstract file system (spec/FileSys.tla) and
               checks Atomic after every call, ErrorClean/SuccessExact at return, and agreement with the real directory
"""
from __future__ import annotations

import hashlib
import json
import os
import shutil
import stat as _stat
import tempfile

from mbt import engine
from drivers import fsio
from drivers.common import run_async

OLD_CANON = "===DOC===\nA::1\nB::old\n===END===\n"
OLD_LENIENT = "===DOC===\nA :: 1\nB::old\n===END===\n"     # non-canonical: normalize mode has work to do
NEW_INPUT = "===DOC===\nA::2\nB::new value\n===END===\n"


def sha(t):
    return hashlib.sha256(t.encode()).hexdigest()


# scenario: (name, entry, mode, old ("OLD"/"ABSENT"), base_hash?, sub dir?, file mode)
def scenarios(thorough):
    s = []
    for entry in ("tool",):
        s += [("new", entry, "content", "ABSENT", False, False, 0o644),
              ("overwrite", entry, "content", "OLD", False, False, 0o644),
              ("overwrite_cas", entry, "content", "OLD", True, False, 0o644),
              ("changes", entry, "changes", "OLD", False, False, 0o644),
              ("changes_cas", entry, "changes", "OLD", True, False, 0o644),
              ("normalize", entry, "normalize", "OLD", False, False, 0o644),
              ("normalize_cas", entry, "normalize", "OLD", True, False, 0o644),
              ("newdir", entry, "content", "ABSENT", False, True, 0o644),
              ("readonly", entry, "content", "OLD", False, False, 0o444),
              ("lenient", entry, "content_lenient", "OLD", False, False, 0o640),
              # the file differs from the canonical text in its line endings only (CRLF): the bytes must still become the canonical ones
              ("normalize_crlf", entry, "normalize_crlf", "OLD", False, False, 0o644),
              ("normalize_crlf_cas", entry, "normalize_crlf", "OLD", True, False, 0o644),
              ("same_content_over_crlf", entry, "content_same_crlf", "OLD", False, False, 0o644)]
    for entry in ("api", "cli"):
        s += [("new", entry, "content", "ABSENT", False, False, 0o644),
              ("overwrite", entry, "content", "OLD", False, False, 0o644),
              ("overwrite_cas", entry, "content", "OLD", True, False, 0o644),
              ("newdir", entry, "content", "ABSENT", False, True, 0o644),
              ("readonly", entry, "content", "OLD", False, False, 0o444)]
    # permission bits the process umask (set to 022 for every run) would clear from a NEW file, and execute bits: an existing file keeps them
    for entry in ("tool", "api", "cli"):
        s += [("groupwrite", entry, "content", "OLD", False, False, 0o664),
              ("worldrw_exec_cas", entry, "content", "OLD", True, False, 0o777 if entry != "tool" else 0o666)]
    s.append(("groupwrite_changes", "cli", "changes", "OLD", False, False, 0o660))
    s.append(("changes", "cli", "changes", "OLD", False, False, 0o644))
    # text that cannot be encoded (a lone surrogate): the call must fail cleanly - the failure is not an OSError
    s.append(("unencodable", "api", "content_surrogate", "OLD", False, False, 0o644))
    s.append(("unencodable_cas", "api", "content_surrogate", "OLD", True, False, 0o644))
    s.append(("unencodable_change", "cli", "changes_surrogate", "OLD", False, False, 0o644))
    # the other CLI commands that write a file: in place over the file they read
    s.append(("normalize_in_place", "cli", "normalize_o", "OLD", False, False, 0o644))
    s.append(("seal_in_place", "cli", "seal_o", "OLD", False, False, 0o640))
    return s


class Sandbox:
    def __init__(self, sc):
        self.sc = sc
        name, entry, mode, old, cas, sub, fmode = sc
        self.root = tempfile.mkdtemp(prefix="c16.", dir=os.environ.get("VERIF_SCRATCH", "/var/tmp"))
        self.dir = os.path.join(self.root, "sub") if sub else self.root
        self.target = os.path.join(self.dir, "doc.oct.md")
        self.old_text = OLD_LENIENT if mode in ("normalize", "normalize_o") else (OLD_CANON.replace("\n", "\r\n") if mode.endswith("crlf") else OLD_CANON)
        if old == "OLD":
            os.makedirs(self.dir, exist_ok=True)
            with open(self.target, "w", encoding="utf-8", newline="") as f:
                f.write(self.old_text)
            os.chmod(self.target, fmode)

    def name_of(self, path):
        if path == self.target:
            return "target"
        if path == self.dir and self.dir != self.root:
            return "parent"
        if path == self.root:
            return "root"
        return "tmp:" + os.path.relpath(path, self.root)

    def snapshot(self, new_text):
        """(what the target holds, number of other files in its directory, its mode)"""
        try:
            with open(self.target, "rb") as f:
                data = f.read().decode("utf-8", "replace")
            held = "NEW" if data == new_text else ("OLD" if data == self.old_text else "TORN")
            mode = _stat.S_IMODE(os.lstat(self.target).st_mode)
        except FileNotFoundError:
            held, mode = "ABSENT", 0
        ntmp = 0
        if os.path.isdir(self.dir):
            ntmp = sum(1 for n in os.listdir(self.dir) if os.path.join(self.dir, n) != self.target
                       and os.path.isfile(os.path.join(self.dir, n)))
        return held, ntmp, mode

    def cleanup(self):
        for dp, dn, fn in os.walk(self.root):
            for n in fn:
                try:
                    os.chmod(os.path.join(dp, n), 0o644)
                except OSError:
                    pass
        shutil.rmtree(self.root, ignore_errors=True)


def invoke(sc, sb):
    """Call the entry point of the scenario; returns (status ok/error, returned hash or None)."""
    name, entry, mode, old, cas, sub, fmode = sc
    # the tools hash the text as read (universal newlines), so for a CRLF file the accepted base_hash is the hash of its LF form
    base = sha(sb.old_text.replace("\r\n", "\n")) if cas else None
    if entry == "tool":
        from octave_mcp.mcp.write import WriteTool
        kw = {"target_path": sb.target}
        if mode == "content_same_crlf":
            kw["content"] = OLD_CANON
        elif mode in ("content", "content_lenient"):
            kw["content"] = NEW_INPUT
            if mode == "content_lenient":
                kw["lenient"] = True
        elif mode == "changes":
            kw["changes"] = {"B": "new value", "C": [1, 2]}
        if base:
            kw["base_hash"] = base
        r = run_async(WriteTool().execute(**kw))
        return ("ok" if r.get("status") == "success" else "error"), r.get("canonical_hash")
    if entry == "api":
        from octave_mcp.core.emitter import emit
        from octave_mcp.core.file_ops import atomic_write_octave
        from octave_mcp.core.parser import parse
        if mode == "content_surrogate":
            r = atomic_write_octave(sb.target, '===DOC===\nA::"\ud800"\n===END===\n', base)
        else:
            r = atomic_write_octave(sb.target, emit(parse(NEW_INPUT)), base)
        return ("ok" if r.get("status") == "success" else "error"), r.get("canonical_hash")
    from click.testing import CliRunner
    from octave_mcp.cli.main import cli
    if mode in ("normalize_o", "seal_o"):
        args = [mode[:-2], sb.target, "-o", sb.target]
    else:
        args = ["write", sb.target]
        args += ["--changes", json.dumps({"B": "new value"})] if mode == "changes" else (["--changes", '{"B": "\\ud800"}'] if mode == "changes_surrogate" else ["--content", NEW_INPUT])
    if base:
        args += ["--base-hash", base]
    res = CliRunner().invoke(cli, args, catch_exceptions=True)
    h = None
    for ln in res.output.splitlines():
        if ln.startswith("canonical_hash:"):
            h = ln.split(":", 1)[1].strip()
    return ("ok" if res.exit_code == 0 else "error"), h


def run_once(sc, plan, new_text=None, fork=False):
    """One execution under a plan. Returns dict(events, status, hash, snap)."""
    os.umask(0o022)
    sb = Sandbox(sc)
    try:
        if fork:
            rfd, wfd = os.pipe()
            pid = os.fork()
            if pid == 0:
                os.close(rfd)
                rec = fsio.Recorder(sb.root, sb.name_of, plan=plan, kill_mode="exit")
                rec.sink = wfd
                un = fsio.install(rec)
                try:
                    try:
                        status, h = invoke(sc, sb)
                    except BaseException as e:  # noqa
                        status, h = "error", None
                    un()
                    os.write(wfd, (json.dumps(rec.events) + "\n" + json.dumps({"status": status, "hash": h}) + "\n").encode())
                finally:
                    os._exit(0)
            os.close(wfd)
            buf = b""
            while True:
                b = os.read(rfd, 65536)
                if not b:
                    break
                buf += b
            os.close(rfd)
            os.waitpid(pid, 0)
            parts = buf.decode().strip().split("\n")
            events = json.loads(parts[0]) if parts and parts[0] else []
            ret = json.loads(parts[1]) if len(parts) > 1 else None
            status, h = (ret["status"], ret["hash"]) if ret else ("killed", None)
        else:
            rec = fsio.Recorder(sb.root, sb.name_of, plan=plan, kill_mode="raise")
            un = fsio.install(rec)
            try:
                try:
                    status, h = invoke(sc, sb)
                except fsio.Killed:
                    status, h = "killed", None
                except Exception:
                    status, h = "error", None
            finally:
                un()
            events = rec.events
        held, ntmp, mode = sb.snapshot(new_text if new_text is not None else "\x00")
        final_text = None
        if new_text is None:
            try:
                with open(sb.target, encoding="utf-8", newline="") as f:
                    final_text = f.read()
            except OSError:
                final_text = None
        return {"events": events, "status": status, "hash": h, "snap": (held, ntmp, mode), "final_text": final_text}
    finally:
        sb.cleanup()


def job(item):
    sc, plan, new_text, fork = item
    plan2 = {int(k): tuple(v) for k, v in plan.items()}
    return run_once(tuple(sc), plan2, new_text, fork)


def tmp_names(events):
    """Rename harness path names tmp:<relpath> to tmp1, tmp2, ... in order of first appearance."""
    m = {}
    for e in events:
        for k in ("path", "path2"):
            v = e.get(k, "-")
            if isinstance(v, str) and v.startswith("tmp"):
                if v not in m:
                    m[v] = "tmp%d" % (len(m) + 1)
                e[k] = m[v]
    return events


def run(ctx):
    scs = scenarios(ctx.thorough)
    # 1. design model
    ctx.model("AtomicWrite", constants={"MaxFaults": 2}, invariants=["Atomic", "ErrorClean", "SuccessExact", "DurableInstall", "TypeOK"],
              required_actions=["Step", "Fault", "Die"])
    # 2. healthy runs: observe the call sequence and the new canonical text of each scenario
    healthy = engine.parallel_map(job, [(sc, {}, None, False) for sc in scs], chunk=4)
    items, meta = [], []
    errnos = ["ENOSPC", "EACCES", "EIO", "EINTR", "EROFS"]
    for sc, h in zip(scs, healthy):
        if sc[2].endswith("_surrogate"):
            # the fault is in the input: the healthy run itself is the case (status error expected; judged by ErrorClean on the snapshot)
            if h["status"] == "ok":
                raise engine.Machinery("scenario %r was expected to be refused" % (sc,))
            items.append((sc, {}, "\x00never", False))
            meta.append({"scenario": "%s/%s" % (sc[1], sc[0]), "plan": {}, "fork": False, "new_text": "\x00never", "sc": sc})
            continue
        if h["status"] != "ok" or h["final_text"] is None:
            raise engine.Machinery("healthy run of scenario %r did not succeed: %r" % (sc, h["status"]))
        n = len(h["events"])
        new_text = h["final_text"]
        res = ctx.model("FaultPlans", tag="FaultPlans_%s_%s" % (sc[1], sc[0]),
                        constants={"N": n + 4, "Errnos": set(errnos), "Pairs": bool(ctx.thorough),
                                   "PairErrnos": {"EIO", "EACCES"}},
                        invariants=["EmitCase"], required_actions=["Choose"], workers=4)
        for p in res.payload_lines():
            plan = {}
            for f in p["faults"]:
                plan[str(f["at"])] = ["err", f["errno"]]
            if p["kill"] > 0:
                plan[str(p["kill"])] = ["kill"]
            fork = p["kill"] > 0 and (ctx.thorough or p["kill"] % 3 == 0)
            items.append((sc, plan, new_text, fork))
            meta.append({"scenario": "%s/%s" % (sc[1], sc[0]), "plan": plan, "fork": fork, "new_text": new_text, "sc": sc})
    results = engine.parallel_map(job, items, chunk=40)
    # 3. traces
    trace, where = [], {}
    i = 0
    for tid, (m, r) in enumerate(zip(meta, results), start=1):
        sc = m["sc"]
        newchunk = fsio.chunk_id(m["new_text"])
        scen = {"old": sc[3], "oldmode": sc[6], "new": [newchunk]}
        evs = tmp_names([dict(e) for e in r["events"]])
        recs = [{"op": "begin", "tid": tid, "scenario": scen}]
        recs += [{k: e[k] for k in ("op", "res", "h", "path", "path2", "chunk", "mode")} for e in evs]
        if r["status"] != "killed":
            recs.append({"op": "ret", "status": r["status"], "hash_ok": (r["hash"] == sha(m["new_text"])) if r["status"] == "ok" and m["sc"][2] not in ("normalize_o", "seal_o") else True})   # those commands print no hash
        recs.append({"op": "snap", "target": r["snap"][0], "ntmp": r["snap"][1], "mode": r["snap"][2]})
        for e in recs:
            i += 1
            e["i"] = i
            e["tid"] = tid
            where[i] = tid - 1
            trace.append(e)
    fails = ctx.validate("Trace_FileSys", trace, stateful_key="tid", tag="Trace_FileSys")
    by_trace = {}
    for ei, cl in fails.items():
        by_trace.setdefault(where[ei], set()).update(cl)
    failures = []
    for t, cl in sorted(by_trace.items()):
        m, r = meta[t], results[t]
        failures.append({"i": t, "case": {"scenario": m["scenario"], "plan": m["plan"], "real_kill": m["fork"]},
                         "obs": {"status": r["status"], "snap": list(r["snap"]),
                                 "calls": ["%s(%s)%s" % (e["op"], e["path"] if e["path"] != "-" else e["h"],
                                                         "" if e["res"] == "ok" else "=" + e["res"]) for e in r["events"]]},
                         "fails": sorted(cl)})
    ctx.trace_records = len(results)
    nontrivial = len({json.dumps([m["scenario"], m["plan"]], sort_keys=True) for m in meta if m["plan"]})
    samples = [{"scenario": meta[k]["scenario"], "plan": meta[k]["plan"], "status": results[k]["status"],
                "calls": ["%s(%s)%s" % (e["op"], e["path"] if e["path"] != "-" else e["h"], "" if e["res"] == "ok" else "=" + e["res"])
                          for e in results[k]["events"]][:40], "snapshot": list(results[k]["snap"])}
               for k in range(1, len(results), max(1, len(results) // 4))][:4]
    return engine.report(
        ctx, failures=failures, matchers=MATCHERS, evaluations=len(results), distinct_nontrivial=nontrivial,
        rule="per scenario (entry point x mode x old state x base_hash x parent x file mode) spec/FaultPlans.tla enumerates "
             "every single fault (5 errnos) at every call index of the observed healthy sequence (+4 for error paths), a kill "
             "before every call, and (thorough) every pair of faults over {EIO,EACCES}; distinct = (scenario, plan); "
             "non-trivial = plan has >= 1 fault or kill; traces_validated = executions whose recorded calls were run on the "
             "abstract file system by TLC",
        samples=samples, exhaustive=True,
        descr=lambda fl, clause: "scenario=%s plan=%s" % (fl["case"]["scenario"], json.dumps(fl["case"]["plan"], sort_keys=True)),
        assumptions=["interposition at the Python call boundary (builtins.open, os.*, tempfile.mkstemp, file objects): calls made "
                     "below it (C level) are not seen; write() is modelled as filling a user-space buffer until flush/close",
                     "an injected fault replaces the call (no effect), except flush/close which tear (a prefix reaches the file)",
                     "kills are real for a third of the kill points in quick tier (forked child, os._exit); all kill points are "
                     "judged on the abstract state after the previous call",
                     "power-loss / page-cache semantics are outside the statement and the model",
                     "a temp file left after a run in which the unlink/existence probe of that temp file was itself failed by "
                     "injection is excused (no code could have removed it)"],
        extra_coverage={"scenarios": ["%s/%s" % (s[1], s[0]) for s in scs]})


MATCHERS = {}
