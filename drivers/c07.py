"""C07 - every lenient rewrite has a receipt; canonical input has none (see drivers/docs.py)."""
from drivers import docs


def _strict_mw(fl, clause):
    for s in fl["obs"]["surfaced"]:
        if s["route"] == "write.corrections_only.strict" and not s["ok"]:
            return s.get("why") == "mw-missing"
    return False


MATCHERS = {"C07-strict-write-hides-multiword": _strict_mw}


def run(ctx):
    return docs.run(ctx, "C07", matchers=MATCHERS)
