"""C07 - every lenient rewrite has a receipt; canonical input has none (see drivers/docs.py)."""
from drivers import docs


def _strict_mw(fl, clause):
    route = clause.split(":", 1)[1]
    for s in fl["obs"]["surfaced"]:
        if s["route"] == route and not s["ok"]:
            return s.get("why") == "mw-missing"
    return False


MATCHERS = {"C07-strict-write-hides-multiword": _strict_mw}


def run(ctx):
    # the tool routes (4 validate profiles, 4 write dry runs) are observed on every 3rd document, the reader receipts on every one
    return docs.run(ctx, "C07", matchers=MATCHERS, tools_every=3)
