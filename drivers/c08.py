"""C08 - validator verdicts follow the documented constraint semantics.

(i)  chains : spec/Constraints.tla enumerates every sequence of <= MaxChain constraints of spec/ConstraintPools.tla; the real
              ConstraintChain.parse(text).evaluate(value) is run on every pool value; spec/Trace_Constraints.tla evaluates the
              reference semantics on the same pairs (VerdictEqual, ConflictFirst, CodeOfKind, ChainParses)
(ii) docs   : spec/SchemaDocs.tla enumerates schema documents (fields x UNKNOWN_FIELDS policy) and instance blocks (ok / bad /
              missing / null / duplicated fields, unknown field); the schema is written to a project specs/schemas directory and
              the instance validated through octave_validate and the Validator API; spec/Trace_SchemaDocs.tla judges
"""
from __future__ import annotations

import json
import os
import shutil
import tempfile

from mbt import engine
from drivers import common as _common
from drivers.common import run_async

# ---- concretisation of pool values (ids of spec/ConstraintPools.tla) into Python values
def pyvalue(vid):
    from octave_mcp.core.ast_nodes import LiteralZoneValue
    if vid.startswith("s:"):
        return vid[2:]
    if vid.startswith("n:"):
        lit = vid[2:]
        return float(lit) if "." in lit else int(lit)
    if vid == "b:true":
        return True
    if vid == "b:false":
        return False
    if vid == "null":
        return None
    if vid.startswith("l:"):
        return ["a", "b", "c", "d"][: int(vid[2:])]
    if vid.startswith("z:"):
        tag = vid[2:]
        return LiteralZoneValue(content="x = 1", info_tag=None if tag == "none" else tag, fence_marker="```")
    raise KeyError(vid)


_vids = None


def value_ids():
    global _vids
    if _vids is None:
        import re
        txt = open(os.path.join(os.path.dirname(os.path.dirname(os.path.abspath(__file__))), "spec", "ConstraintPools.tla")).read()
        m = re.search(r"ValueIds == \{(.*?)\}\n", txt, re.S)
        _vids = json.loads("[" + m.group(1) + "]")
    return _vids


def replay_chain_rev(item):
    """the same chain, the pool values met in the opposite order (run in a fresh set of worker processes)"""
    return replay_chain(item, reverse=True)


def replay_chain(item, reverse=False):
    i, case = item
    from octave_mcp.core.constraints import ConstraintChain
    text = "∧".join(case["text"])
    try:
        chain = ConstraintChain.parse(text)
    except Exception as e:
        return {"i": i, "case": {"chain": case["chain"]}, "parse_ok": False, "obs": [], "text": text, "err": repr(e)}
    obs = []
    for vid in (list(reversed(value_ids())) if reverse else value_ids()):
        try:
            r = chain.evaluate(pyvalue(vid), "F")
            obs.append({"v": vid, "valid": bool(r.valid), "codes": [str(e.code) for e in r.errors]})
        except Exception as e:
            obs.append({"v": vid, "valid": False, "codes": ["RAISED:" + type(e).__name__]})
    # the same chain object after the other things a chain is used for (its grammar pattern, its text): evaluation is a pure
    # function of chain and value, so the same verdicts are owed again
    try:
        chain.compile()
        chain.to_string()
    except Exception:
        pass
    for vid in (value_ids() if reverse else list(reversed(value_ids()))):
        try:
            r = chain.evaluate(pyvalue(vid), "F")
            obs.append({"v": vid, "valid": bool(r.valid), "codes": [str(e.code) for e in r.errors]})
        except Exception as e:
            obs.append({"v": vid, "valid": False, "codes": ["RAISED:" + type(e).__name__]})
    return {"i": i, "case": {"chain": case["chain"]}, "parse_ok": True, "obs": obs, "text": text}


# ---- document level
_env = {}


def _schema_dir():
    if not _env:
        d = tempfile.mkdtemp(prefix="c08.", dir=os.environ.get("VERIF_SCRATCH", "/var/tmp"))
        os.makedirs(os.path.join(d, "specs", "schemas"))
        _env["dir"] = d
    os.chdir(_env["dir"])
    return _env["dir"]


def schema_text(name, case):
    lines = ["===%s===" % name, "META:", "  TYPE::PROTOCOL_DEFINITION", '  VERSION::"1.0"', ""]
    tgt = case.get("tgt", "field")
    if case["policy"] != "NONE":
        lines += ["POLICY:", '  VERSION::"1.0"', "  UNKNOWN_FIELDS::%s" % case["policy"], "  TARGETS::[§SELF,§INDEXER]"]
        if tgt == "default":
            lines.append("  DEFAULT_TARGET::§INDEXER")
        lines.append("")
    lines.append("FIELDS:")
    for f in sorted(case["fields"]):
        lines.append('  %s::["example"&%s%s]' % (f, case["chains"][f], "->§SELF" if tgt == "field" else ""))
    lines += ["===END===", ""]
    return "\n".join(lines)


def instance_text(name, case):
    sp = case.get("sp") or {"ind": 2, "asg": "::", "quote": False, "blank": False, "endOmit": False}
    pad = " " * sp["ind"]
    lines = ["===INSTANCE===", "META:", pad + "TYPE" + sp["asg"] + "TEST", "%s:" % name]
    n0 = len(lines)
    for f in sorted(case["fields"]):
        for t in case["texts"][f]:
            if sp["quote"] and t and t[0] not in '"0123456789-' and t not in ("null", "true", "false"):
                t = '"%s"' % t                     # optional quotes around a plain word: same string value
            if sp["blank"]:
                lines.append("")
            lines.append(pad + f + sp["asg"] + t)
    if case["unknown"]:
        lines.append(pad + "EXTRA" + sp["asg"] + '"surprise"')
    if len(lines) == n0:
        lines.append(pad + "// nothing")
    if not sp["endOmit"]:
        lines.append("===END===")
    lines.append("")
    return "\n".join(lines)


def schema_name(case):
    return "GEN_%s_%s%s" % ("".join(sorted(f[0] for f in case["fields"])), case["policy"], {"field": "", "default": "_DT", "none": "_NT"}[case.get("tgt", "field")])


def field_of(path, name):
    p = str(path or "")
    return p.split(".")[-1] if p else ""


def replay_doc(item):
    i, case = item
    from octave_mcp.core.parser import parse
    from octave_mcp.core.validator import Validator
    from octave_mcp.mcp.validate import ValidateTool
    from octave_mcp.schemas.loader import load_schema_by_name

    d = _schema_dir()
    name = schema_name(case)
    sp = os.path.join(d, "specs", "schemas", name.lower() + ".oct.md")
    if not os.path.exists(sp):
        with open(sp, "w", encoding="utf-8") as f:
            f.write(schema_text(name, case))
    text = instance_text(name, case)
    obs = []
    # Validator API
    try:
        sdef = load_schema_by_name(name)
        errs = Validator(schema=None).validate(parse(text), strict=False, section_schemas={sdef.name: sdef})
        obs.append({"route": "validator_api", "status": "-",
                    "error_fields": [field_of(e.field_path, name) for e in errs if getattr(e, "severity", "error") != "warning"],
                    "warning_fields": [field_of(e.field_path, name) for e in errs if getattr(e, "severity", "error") == "warning"]})
    except Exception as e:
        obs.append({"route": "validator_api", "status": "RAISED:" + type(e).__name__, "error_fields": [], "warning_fields": []})
    # octave_validate
    try:
        # every other document is validated with the debugging outputs switched on: they describe the verdict, they are not part of it
        r = run_async(_common.tool("validate").execute(content=text, schema=name, **({"debug_grammar": True, "grammar_hint": True} if i % 2 else {})))
        ve = r.get("validation_errors", [])
        ws = [w for w in r.get("warnings", []) if w not in ve]
        obs.append({"route": "octave_validate", "status": str(r.get("validation_status")),
                    "error_fields": [field_of(e.get("field"), name) for e in ve if not str(e.get("code", "")).startswith("W")],
                    "warning_fields": [field_of(e.get("field"), name) for e in list(ve) + ws if str(e.get("code", "")).startswith("W")]})
    except Exception as e:
        obs.append({"route": "octave_validate", "status": "RAISED:" + type(e).__name__, "error_fields": [], "warning_fields": []})
    return {"i": i, "case": {k: case[k] for k in ("fields", "policy", "unknown", "inst")}, "obs": obs, "text": text}


BASE_STATES = {"ok", "bad", "missing", "null", "dup_ok_last", "dup_bad_last", "ambig"}


def _cleanup():
    base = os.environ.get("VERIF_SCRATCH", "/var/tmp")
    for n in os.listdir(base):
        if n.startswith("c08."):
            shutil.rmtree(os.path.join(base, n), ignore_errors=True)


def _warn_invalid(fl, clause):
    """WARN policy + unknown field is the only problem, the tool answers INVALID listing W001 (validator itself is right)"""
    c = fl["case"]
    return clause == "StatusFollows:octave_validate" and c.get("policy") == "WARN" and c.get("unknown") is True


MATCHERS = {}


def run(ctx):
    try:
        maxchain = 3 if ctx.thorough else 2
        res = ctx.model("Constraints", constants={"MaxChain": maxchain, "ChainPool": "@ConsIds"},
                        invariants=["EmitCase", "OrderFree"], required_actions=["Extend"])
        chains = list(res.payload_lines())
        if not ctx.thorough:
            # quick: all chains of <= 2 members plus all chains of 3 members over a sub-pool
            sub = {"REQ", "OPT", "CONST_ab", "ENUM_ab", "T_STR", "T_NUM", "RE_alt", "RANGE_1_10", "MIN_2", "MAX_3", "DATE"}
            res2 = ctx.model("Constraints", tag="Constraints_len3_subpool", constants={"MaxChain": 3, "ChainPool": sub},
                             invariants=["EmitCase", "OrderFree"], required_actions=["Extend"])
            seen = {tuple(c["chain"]) for c in chains}
            chains += [c for c in res2.payload_lines() if tuple(c["chain"]) not in seen]
        recs = engine.parallel_map(replay_chain, list(enumerate(chains)), chunk=100)
        # verdicts must not depend on what was evaluated before: new worker processes, chains and values in the opposite order
        rev = engine.parallel_map(replay_chain_rev, list(reversed(list(enumerate(chains)))), chunk=100)
        rmap = {r["i"]: {o["v"]: (o["valid"], o["codes"]) for o in r["obs"]} for r in rev}
        for r in recs:
            for o in r["obs"]:
                o["same_rev"] = rmap.get(r["i"], {}).get(o["v"]) == (o["valid"], o["codes"])
        fails = ctx.validate("Trace_Constraints", [{k: r[k] for k in ("i", "case", "parse_ok", "obs")} for r in recs],
                             constants={"MaxChain": 0, "ChainPool": set()})
        failures = []
        for r in recs:
            if r["i"] in fails:
                at = set(ctx.details.get(r["i"], {}).get("at", []))
                failures.append({"i": r["i"], "case": {"chain": r["case"]["chain"], "text": r["text"]},
                                 "obs": [o for o in r["obs"] if o["v"] in at][:8] or [{"v": "chain refused: %s " % r.get("err"), "valid": False}], "fails": fails[r["i"]]})
        res = ctx.model("SchemaDocs", constants={"MaxFields": 3 if ctx.thorough else 2, "StateSet": BASE_STATES | ({"ok2", "casefold", "numstr"} if ctx.thorough else set()),
                                                 "Spell": False}, invariants=["EmitCase"], required_actions=["Fill"])
        docs = list(res.payload_lines())
        drecs = engine.parallel_map(replay_doc, [(10 ** 6 + k, d) for k, d in enumerate(docs)], chunk=50)
        dfails = ctx.validate("Trace_SchemaDocs", [{k: r[k] for k in ("i", "case", "obs")} for r in drecs],
                              constants={"MaxFields": 0, "StateSet": set(), "Spell": False})
        for r in drecs:
            if r["i"] in dfails:
                failures.append({"i": r["i"], "case": r["case"], "obs": r["obs"], "text": r["text"], "fails": dfails[r["i"]]})
    finally:
        _cleanup()
    evaluations = sum(len(r["obs"]) for r in recs) + sum(len(r["obs"]) for r in drecs)
    nontrivial = sum(1 for c in chains if len(c["chain"]) >= 2) + sum(1 for d in docs if d["unknown"] or any(v != "ok" for v in d["inst"].values()))
    samples = [{"chain": recs[k]["text"], "obs": recs[k]["obs"][:3]} for k in (3, len(recs) // 2)]
    samples.append({"instance": drecs[len(drecs) // 3]["text"], "case": drecs[len(drecs) // 3]["case"], "obs": drecs[len(drecs) // 3]["obs"]})
    return engine.report(
        ctx, failures=failures, matchers=MATCHERS, evaluations=evaluations, distinct_nontrivial=nontrivial,
        rule="(i) every sequence (every order) of <= MaxChain constraints from the 28-constraint pool (quick: <= 2 over the full "
             "pool + 3 over an 11-constraint sub-pool) x the 58-value pool; (ii) every schema document of spec/SchemaDocs.tla x "
             "every instance block; non-trivial = chain of >= 2 members / instance that is not entirely valid",
        samples=samples, exhaustive=True,
        descr=lambda fl, clause: ("chain=%s values=%s" % (fl["case"].get("text"), [o["v"] + ("+" if o["valid"] else "-") for o in fl["obs"]][:6]))
        if "chain" in fl["case"] else "doc=%s" % json.dumps(fl["case"], sort_keys=True),
        assumptions=["the reference semantics (spec/Constraints.tla) is written from the documentation; combinations it does not "
                     "settle are the named DontCare set (RANGE/DATE/ISO8601 on numeric strings or numbers, ENUM/REGEX against "
                     "non-strings, CONST across bool/number, REQ on an empty list, undocumented ISO 8601 forms, CONST[number] "
                     "against ENUM texts)",
                     "regex pool patterns are anchored at both ends and pool values contain no newline",
                     "for a failing multi-member chain any failing member's code is accepted"])
