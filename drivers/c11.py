"""C11 - schema repair changes only what it may, and logs every change.

model run : spec/SchemaDocs.tla with the perturbation states (case variants, numeric strings incl. out-of-range, malformed,
            overflowing, > 2^53, floats, duplicated repairable keys, ambiguous / wrong / null / missing / unknown fields)
replay    : repair() with fix off/on, octave_validate(fix=false/true), octave_write(lenient=true, schema=...)
validation: spec/Trace_Repair.tla judges the observation (before, after, log) as a refinement of the allowed-repair relation
"""
from __future__ import annotations

import json
import os

from mbt import engine
from drivers import common as _common
from drivers import c08
from drivers.common import kind_of, run_async


def block_children(doc, name):
    """[key, field, kind, text] of the children of the schema block + a digest of everything else."""
    from octave_mcp.core.ast_nodes import Assignment, Block
    from octave_mcp.core.emitter import emit_value

    out, others = [], []
    for s in doc.sections:
        if isinstance(s, Block) and s.key == name:
            for ch in s.children:
                if isinstance(ch, Assignment):
                    v = ch.value
                    k = kind_of(v)
                    text = v if k == "str" else (repr(v) if k in ("int", "float") else ("true" if v is True else "false" if v is False else "null" if v is None else emit_value(v)))
                    out.append({"key": ch.key, "field": ch.key, "kind": k, "text": text})
                else:
                    out.append({"key": "<" + type(ch).__name__ + ">", "field": "-", "kind": "node", "text": ""})
        else:
            from octave_mcp.core.emitter import emit_assignment, emit_block
            others.append(emit_assignment(s) if isinstance(s, Assignment) else (emit_block(s) if isinstance(s, Block) else repr(type(s))))
    return out, [doc.name, sorted((k, repr(v)) for k, v in doc.meta.items()), others]


def replay(item):
    i, case = item
    from octave_mcp.core.parser import parse
    from octave_mcp.core.repair import repair
    from octave_mcp.core.validator import Validator
    from octave_mcp.mcp.validate import ValidateTool
    from octave_mcp.mcp.write import WriteTool
    from octave_mcp.schemas.loader import load_schema_by_name

    d = c08._schema_dir()
    name = c08.schema_name(case)
    sp = os.path.join(d, "specs", "schemas", name.lower() + ".oct.md")
    if not os.path.exists(sp):
        with open(sp, "w", encoding="utf-8") as f:
            f.write(c08.schema_text(name, case))
    text = c08.instance_text(name, case).replace("===INSTANCE===\n", "===INSTANCE===\n", 1)
    text = text.replace("%s:" % name, "OTHER::HIGH\n%s:" % name, 1)        # a field outside the schema block must never change
    sdef = load_schema_by_name(name)
    before, others0 = block_children(parse(text), name)
    obs = []

    def entry(route, fix, after_doc_text, log, after2_text=None, log2=None):
        after, others1 = block_children(parse(after_doc_text), name)
        idem = True
        if after2_text is not None:
            a2, _ = block_children(parse(after2_text), name)
            idem = a2 == after and not log2
        obs.append({"route": route, "fix": fix, "before": before, "after": after, "others_same": others0 == others1,
                    "log": [{"before": str(e.get("before")), "after": str(e.get("after")), "tier": str(e.get("tier"))} for e in log],
                    "idempotent": idem})

    from octave_mcp.core.emitter import emit
    for fix in (False, True):
        doc = parse(text)
        errs = Validator(schema=None).validate(doc, strict=False, section_schemas={sdef.name: sdef})
        doc, log = repair(doc, errs, fix=fix, schema=sdef)
        t1 = emit(doc)
        doc2 = parse(t1)
        errs2 = Validator(schema=None).validate(doc2, strict=False, section_schemas={sdef.name: sdef})
        doc2, log2 = repair(doc2, errs2, fix=fix, schema=sdef)
        entry("repair_api", fix, t1, [e.to_dict() for e in log.repairs], emit(doc2), [e.to_dict() for e in log2.repairs])
    vt = _common.tool("validate")
    for fix in (False, True):
        r = run_async(vt.execute(content=text, schema=name, fix=fix))
        log = [x for x in r.get("repairs", []) if isinstance(x, dict) and x.get("tier") is not None]
        r2 = run_async(vt.execute(content=r["canonical"], schema=name, fix=fix))
        log2 = [x for x in r2.get("repairs", []) if isinstance(x, dict) and x.get("tier") is not None]
        entry("octave_validate", fix, r["canonical"], log, r2["canonical"], log2)
    # fix on together with the output options: they shape the answer, never what was repaired or what the log says
    for flags in ({"compact": True}, {"grammar_hint": True}, {"debug_grammar": True}, {"compact": True, "grammar_hint": True}):
        r = run_async(vt.execute(content=text, schema=name, fix=True, **flags))
        log = [x for x in r.get("repairs", []) if isinstance(x, dict) and x.get("tier") is not None]
        entry("octave_validate+" + "+".join(sorted(flags)), True, r["canonical"], log)
    # fix off under every profile: no profile implies repair
    for prof in ("STRICT", "LENIENT", "ULTRA"):
        r = run_async(vt.execute(content=text, schema=name, fix=False, profile=prof))
        log = [x for x in r.get("repairs", []) if isinstance(x, dict) and x.get("tier") is not None]
        entry("octave_validate_%s" % prof, False, r["canonical"], log)
    # the same long-lived tool, fix off again after fix on was served for the very same text: still nothing may change
    r = run_async(vt.execute(content=text, schema=name, fix=False))
    log = [x for x in r.get("repairs", []) if isinstance(x, dict) and x.get("tier") is not None]
    entry("octave_validate_off_after_on", False, r["canonical"], log)
    wt = _common.tool("write")
    p = os.path.join(d, "r%d.oct.md" % os.getpid())
    if os.path.exists(p):
        os.unlink(p)
    r = run_async(wt.execute(target_path=p, content=text, schema=name, lenient=True))
    if r.get("status") == "success":
        with open(p, encoding="utf-8") as f:
            t1 = f.read()
        # corrections also carry the reader's receipts (tiers NORMALIZATION / LENIENT_PARSE): the schema-repair log is tier REPAIR
        log = [c for c in r.get("corrections", []) if c.get("tier") == "REPAIR"]
        r2 = run_async(wt.execute(target_path=p, content=t1, schema=name, lenient=True))
        with open(p, encoding="utf-8") as f:
            t2 = f.read()
        log2 = [c for c in r2.get("corrections", []) if c.get("tier") == "REPAIR"]
        entry("octave_write_lenient", True, t1, log, t2, log2)
    return {"i": i, "case": {k: case[k] for k in ("fields", "policy", "unknown", "inst")}, "obs": obs, "text": text}


MATCHERS = {}


def run(ctx):
    try:
        states = {"ok", "bad", "missing", "null", "ambig", "casefold", "casefold2", "numstr", "numstr_out", "numbad", "numover",
                  "numfloat", "numbig", "dup_numstr", "dup_casefold", "dup_bad_last", "casefold3", "casefold1", "casefold_pad", "casefold_padlow"}
        res = ctx.model("SchemaDocs", constants={"MaxFields": 3 if ctx.thorough else 2, "StateSet": states, "Spell": False},
                        invariants=["EmitCase"], required_actions=["Fill"])
        cases = list(res.payload_lines())
        recs = engine.parallel_map(replay, list(enumerate(cases)), chunk=25)
    finally:
        c08._cleanup()
    fails = ctx.validate("Trace_Repair", [{k: r[k] for k in ("i", "case", "obs")} for r in recs],
                         constants={"MaxFields": 0, "StateSet": set(), "Spell": False})
    failures = [{"i": r["i"], "case": r["case"], "obs": r["obs"], "text": r["text"], "fails": fails[r["i"]]} for r in recs if r["i"] in fails]
    repairable = {"casefold", "casefold2", "casefold1", "numstr", "numstr_out", "numfloat", "numbig", "dup_numstr", "dup_casefold"}
    return engine.report(
        ctx, failures=failures, matchers=MATCHERS, evaluations=sum(len(r["obs"]) for r in recs),
        distinct_nontrivial=sum(1 for c in cases if any(s in repairable for s in c["inst"].values())),
        rule="cases = every schema x instance of spec/SchemaDocs.tla over the perturbation states; non-trivial = instance with >= 1 "
             "repairable value; evaluations = (case, route, fix) runs, each followed by a second run on its output",
        samples=[{"text": recs[k]["text"], "obs": recs[k]["obs"][1:2]} for k in (2, len(recs) // 2)], exhaustive=True,
        descr=lambda fl, clause: "input=%r" % fl["text"][:200],
        assumptions=["refinement: the implementation may leave a repairable value alone; what it does change must be the allowed "
                     "repair, logged once with tier REPAIR and the exact before/after",
                     "occurrences of schema field names outside the schema block are not judged (undocumented), every other node "
                     "outside the block must stay byte-identical"])
