"""C15 - a seal verifies on the sealed content and on nothing else.

model run : spec/Seal.tla = the documents of spec/Author.tla, each followed by every single-site content mutation
replay    : seal_document / verify_seal in memory, after a text round trip, re-sealing, cosmetic respellings of the sealed
            text, the mutated content carrying the original seal, one changed hash character, no seal; `octave seal` followed by
            `octave validate --verify-seal --require-seal`
validation: spec/Trace_Seal.tla compares every observed status with Seal!Expected
"""
from __future__ import annotations

import json
import os
import re
import shutil
import tempfile

from mbt import engine
from drivers.docs import ALL_KNOBS, lines_text

_st = {}


def _dir():
    if not _st:
        _st["dir"] = tempfile.mkdtemp(prefix="c15.", dir=os.environ.get("VERIF_SCRATCH", "/var/tmp"))
    return _st["dir"]


def split_seal(text):
    """(lines before the seal section, the seal section lines, lines after it) of a sealed canonical text"""
    lines = text.split("\n")
    a = next(k for k, ln in enumerate(lines) if ln.startswith("§SEAL::SEAL"))
    b = a + 1
    while b < len(lines) and lines[b].startswith("  "):
        b += 1
    return lines[:a], lines[a:b], lines[b:]


def zone_mask(lines):
    """True for lines that are literal-zone content or part of a multi-line structure that must not be re-indented"""
    mask, fence = [], None
    for ln in lines:
        s = ln.lstrip(" ")
        if fence is None:
            if s.startswith("```"):
                fence = s[: len(s) - len(s.lstrip("`"))]
                mask.append("open")
            else:
                mask.append(False)
        else:
            if s == fence:
                fence = None
                mask.append(False)
            else:
                mask.append(True)
    return mask


def cosmetic(text, kind):
    lines = text.split("\n")
    fm_end = 0
    if lines and lines[0] == "---":
        fm_end = lines.index("---", 1) + 1
    mask = zone_mask(lines)
    out = []
    for k, ln in enumerate(lines):
        if k < fm_end or mask[k] is True or ln == "":
            out.append(ln)
            continue
        if mask[k] == "open" and kind in ("cosmetic_blank_lines", "cosmetic_trailing_ws"):
            out.append(ln)          # a blank line after the opening fence would be zone content
            continue
        if kind == "cosmetic_indent4":
            n = len(ln) - len(ln.lstrip(" "))
            out.append(" " * (2 * n) + ln.lstrip(" "))
        elif kind == "cosmetic_spaces":
            m = re.match(r"^( *(?:§[A-Za-z0-9]+|[A-Za-z_][A-Za-z0-9_.\-]*))::(?=\S)", ln)
            # not the grammar sentinel (OCTAVE::5.1.0 is one token) and not section markers
            out.append(m.group(1) + " :: " + ln[m.end():] if m and not ln.lstrip().startswith("§") and not ln.startswith("OCTAVE::") else ln)
        elif kind == "cosmetic_blank_lines":
            out.append(ln)
            # not between KEY:: and the fence of its zone (the fence must start on the next line), not inside a multi-line list
            if not ln.startswith("===END") and not (ln.rstrip().endswith("[") or ln.rstrip().endswith(",") or ln.rstrip().endswith("::")):
                out.append("")
        elif kind == "cosmetic_trailing_ws":
            out.append(ln + ("  " if not ln.lstrip().startswith("`") else ""))
        else:
            out.append(ln)
    t = "\n".join(out)
    if kind == "cosmetic_no_end":
        k = t.rfind("===END===\n")          # the closing line only: a zone may contain the same text as content
        if k >= 0:
            t = t[:k] + t[k + len("===END===\n"):]
    return t


def status_of(text):
    from octave_mcp.core.parser import parse
    from octave_mcp.core.sealer import verify_seal
    try:
        return verify_seal(parse(text)).status.value
    except Exception as e:
        return "RAISED:" + type(e).__name__


def replay(item):
    i, case = item
    from click.testing import CliRunner
    from octave_mcp.cli.main import cli
    from octave_mcp.core.emitter import emit
    from octave_mcp.core.parser import parse
    from octave_mcp.core.sealer import extract_seal, seal_document, verify_seal

    text = lines_text(case["lines"], case["final"])
    obs = []

    def add(kind, status):
        obs.append({"kind": kind, "status": status})

    try:
        d0 = parse(text)
    except Exception:
        return {"i": i, "case": {"mut": case["mut"]}, "obs": [], "text": text, "skipped": "not accepted by the strict reader"}
    sealed = seal_document(d0)
    T = emit(sealed)
    if case["mut"]["k"] == "none":
        add("unsealed", verify_seal(d0).status.value)
        add("sealed_in_memory", verify_seal(sealed).status.value)
        add("sealed_after_text_roundtrip", status_of(T))
        again = seal_document(parse(T))
        add("resealed_same", "VERIFIED" if extract_seal(again) == extract_seal(sealed) and emit(again) == T else "DIFFERENT_SEAL")
        for kind in ("cosmetic_indent4", "cosmetic_spaces", "cosmetic_blank_lines", "cosmetic_no_end", "cosmetic_trailing_ws"):
            add(kind, status_of(cosmetic(T, kind)))
        h = extract_seal(sealed)["HASH"]
        flipped = ("0" if h[5] != "0" else "1")
        add("hash_char_changed", status_of(T.replace(h, h[:5] + flipped + h[6:])))
        add("hash_last_char_dropped", status_of(T.replace(h, h[:-1])))
        add("hash_char_appended", status_of(T.replace(h, h + "0")))
        add("hash_prefix_only", status_of(T.replace(h, h[:16])))
        add("hash_emptied", status_of(T.replace('"' + h + '"', '""') if ('"' + h + '"') in T else T.replace(h, '""')))
        # content added at the very end of the body, behind the seal section
        tl = T.split("\n")
        e2 = max(k for k, ln in enumerate(tl) if ln == "===END===")
        behind = "\n".join(tl[:e2] + ["ADDED_LATER::1"] + tl[e2:])
        add("node_appended_behind_seal", status_of(behind))
        fpb = os.path.join(_dir(), "b%d.oct.md" % os.getpid())
        with open(fpb, "w", encoding="utf-8", newline="") as f:
            f.write(behind)
        rb = CliRunner().invoke(cli, ["validate", fpb, "--verify-seal", "--require-seal"], catch_exceptions=True)
        add("cli_node_appended_behind_seal", "INVALID" if rb.exit_code == 1 and "Seal: INVALID" in rb.output else "exit%d" % rb.exit_code)
        # CLI: seal the file, then verify it
        fp = os.path.join(_dir(), "s%d.oct.md" % os.getpid())
        op = os.path.join(_dir(), "o%d.oct.md" % os.getpid())
        with open(fp, "w", encoding="utf-8", newline="") as f:
            f.write(text)
        r1 = CliRunner().invoke(cli, ["seal", fp, "-o", op], catch_exceptions=True)
        if r1.exit_code == 0 and os.path.exists(op):
            r2 = CliRunner().invoke(cli, ["validate", op, "--verify-seal", "--require-seal"], catch_exceptions=True)
            add("cli_seal_then_verify", "VERIFIED" if r2.exit_code == 0 and "Seal: VERIFIED" in r2.output else "exit%d" % r2.exit_code)
            os.unlink(op)
    else:
        mtext = lines_text(case["mlines"], case["final"])
        try:
            mcanon = emit(parse(mtext))
        except Exception:
            return {"i": i, "case": {"mut": case["mut"]}, "obs": [], "text": text, "skipped": "mutated text not accepted"}
        _, seal_lines, _ = split_seal(T)
        ml = mcanon.split("\n")
        e = max(k for k, ln in enumerate(ml) if ln == "===END===")
        tampered = "\n".join(ml[:e] + seal_lines + ml[e:])
        add("mutated", status_of(tampered))
        fp = os.path.join(_dir(), "m%d.oct.md" % os.getpid())
        with open(fp, "w", encoding="utf-8", newline="") as f:
            f.write(tampered)
        r2 = CliRunner().invoke(cli, ["validate", fp, "--verify-seal", "--require-seal"], catch_exceptions=True)
        add("cli_mutated", "INVALID" if r2.exit_code == 1 and "Seal: INVALID" in r2.output else "exit%d" % r2.exit_code)
    return {"i": i, "case": {"mut": case["mut"]}, "obs": obs, "text": text, "mtext": lines_text(case["mlines"], 1) if case["mlines"] else ""}


def _cleanup():
    base = os.environ.get("VERIF_SCRATCH", "/var/tmp")
    for n in os.listdir(base):
        if n.startswith("c15."):
            shutil.rmtree(os.path.join(base, n), ignore_errors=True)


MATCHERS = {}


def run(ctx):
    try:
        K = ALL_KNOBS
        base = dict(MaxItems=1, MaxDepth=0, MaxDev=0, PoolA=set(), PoolB=set(), PoolC=set(), HeaderMode="plain", HeaderMaxBody=0,
                    Feat=set(), Knobs=set(), MutPool={"w", "int", "numstr", "two", "l2", "null"})
        runs = []
        if ctx.thorough:
            runs.append(("one_full", dict(base, MaxItems=1, PoolA="@ValIds", Feat={"section", "annot", "block", "target", "comment"}, MaxDev=1, Knobs=K)))
            runs.append(("three", dict(base, MaxItems=3, MaxDepth=2, PoolA={"w", "int", "l3", "z1"}, PoolB={"w", "flow"}, PoolC={"w", "lmap"},
                                       Feat={"block", "section", "comment", "dupkey", "target"})))
            runs.append(("headers", dict(base, MaxItems=1, PoolA={"w"}, HeaderMode="all", HeaderMaxBody=1)))
        else:
            runs.append(("one_core", dict(base, MaxItems=1, PoolA="@CoreIds", Feat={"section", "annot", "block", "target", "comment"})))
            runs.append(("two", dict(base, MaxItems=2, MaxDepth=1, PoolA={"w", "int", "l3", "z1"}, PoolB={"w", "flow", "lmap"},
                                     Feat={"block", "section", "dupkey", "target"})))
            runs.append(("three_nest", dict(base, MaxItems=3, MaxDepth=2, PoolA={"w"}, PoolB={"int"}, PoolC={"w"}, Feat={"block", "section"},
                                            MutPool={"int"})))
            # values that are each other's twin in another kind (1 / 1.0 / true, 42 / "42", 1e16 as float / as integer, 0.1+0.2 / 0.3)
            runs.append(("twins", dict(base, MaxItems=1, PoolA={"one", "fone", "t", "int", "numstr", "f1e16", "i1e16", "f17", "float"}, Feat={"block"},
                                       MutPool={"one", "fone", "t", "int", "numstr", "f1e16", "i1e16", "f17", "float"})))
            runs.append(("headers", dict(base, MaxItems=1, PoolA={"w"}, HeaderMode="all", HeaderMaxBody=1, MutPool={"int"})))
        cases, seen = [], set()
        for tag, consts in runs:
            res = ctx.model("Seal", tag="Seal_" + tag, constants=consts, init="SInit", next_="SNext",
                            invariants=["EmitSeal", "MutationsChangeContent", "BodyWellFormed"], required_actions=["Grow", "Mutate"], heap="8g")
            for c in res.payload_lines():
                k = json.dumps([c["doc"], c["mut"]], sort_keys=True)
                if k not in seen:
                    seen.add(k)
                    cases.append(c)
        recs = engine.parallel_map(replay, list(enumerate(cases)), chunk=50)
    finally:
        _cleanup()
    judged = [r for r in recs if r["obs"]]
    fails = ctx.validate("Trace_Seal", [{k: r[k] for k in ("i", "case", "obs")} for r in judged],
                         constants=dict(MaxItems=0, MaxDepth=0, MaxDev=0, PoolA=set(), PoolB=set(), PoolC=set(), HeaderMode="plain",
                                        HeaderMaxBody=0, Feat=set(), Knobs=set(), MutPool=set()))
    failures = [{"i": r["i"], "case": r["case"], "obs": r["obs"], "text": r["text"], "mtext": r.get("mtext", ""), "fails": fails[r["i"]]}
                for r in judged if r["i"] in fails]
    skipped = sum(1 for r in recs if not r["obs"])
    ctx.notes.append("%d generated cases were not judged because the strict reader refused the rendered text (C02/C05 known findings)" % skipped)
    return engine.report(
        ctx, failures=failures, matchers=MATCHERS, evaluations=sum(len(r["obs"]) for r in judged),
        distinct_nontrivial=sum(1 for c in cases if c["mut"]["k"] != "none"),
        rule="cases = reachable states of spec/Seal.tla: documents of spec/Author.tla (constants in model_runs) and, for each, every "
             "single-site mutation that changes the abstract content; non-trivial = a (document, mutation) pair; evaluations = "
             "verification outcomes observed",
        samples=[{"text": judged[k]["text"], "mutation": judged[k]["case"]["mut"], "obs": judged[k]["obs"][:4]} for k in (1, len(judged) // 2, len(judged) - 2)],
        exhaustive=True,
        descr=lambda fl, clause: "mutation=%s input=%r mutated=%r" % (json.dumps(fl["case"]["mut"]), fl["text"][:120], fl["mtext"][:120]),
        assumptions=["the hash is treated as injective; canonical text as injective in the abstract content (checked in-model: every "
                     "emitted mutation changes Content!AbsDoc)",
                     "cosmetic respellings are applied to the sealed canonical text by the harness (indentation x2, spaces around ::, "
                     "blank lines, omitted END, trailing spaces), never inside literal zones or frontmatter",
                     "comments are not part of the statement's tamper list and are not mutated"])
