"""C06 - results depend only on the input: same bytes in, same bytes out, everywhere.

model run : spec/Determinism.tla - a behaviour is one process life (configuration chosen at start, then the order in which the
            calls are served).  Exhaustive for small call sets (every order of the grammar calls, of the schema-validation calls),
            TLC simulation for the full call set x every configuration axis (hash seed incl. random, working directory, locale,
            sequential / asyncio.gather / thread-pool schedule)
replay    : every life is run in a real interpreter started with that configuration (drivers/c06_worker.py), serving the calls
            on long-lived tool instances as the MCP server keeps them
validation: spec/Trace_Determinism.tla compares every part of every observation of a call with the baseline observation of that
            call and names the axis and the part that differ
"""
from __future__ import annotations

import hashlib
import json
import os
import shutil
import subprocess
import sys
import tempfile

from mbt import engine
from drivers import c06_worker as W

HERE = os.path.dirname(os.path.abspath(__file__))
SEEDS = ["0", "1", "4242", "random"]
LOCALES = ["C.UTF-8", "C", "POSIX", "LANG=C.UTF-8"]
CWDS = ["A", "B"]
MODES = ["seq", "gather", "threads"]
DECOY = ('===DEBATE_TRANSCRIPT===\nMETA:\n  TYPE::PROTOCOL_DEFINITION\n  VERSION::"9.9"\n\nFIELDS:\n  ONLY::["x"∧REQ→§SELF]\n===END===\n')


def setup_dirs(base):
    for c in CWDS:
        d = os.path.join(base, "cwd" + c, "specs", "schemas")
        os.makedirs(d)
        for name, text in (("gen_s", W.GEN_S), ("gen_w", W.GEN_W)):
            with open(os.path.join(d, name + ".oct.md"), "w", encoding="utf-8") as f:
                f.write(text)
    # the second directory also holds a file named like a packaged schema: the lookup order (package resources first) must not
    # let it win.  (Files named like the BUILTIN schemas meta / skill do win by the documented order of get_schema_search_paths:
    # they are the named schema's text for that project, not a dependence on the directory.)
    d = os.path.join(base, "cwdB", "specs", "schemas")
    for name in ("debate_transcript",):
        with open(os.path.join(d, name + ".oct.md"), "w", encoding="utf-8") as f:
            f.write(DECOY.replace("DEBATE_TRANSCRIPT", name.upper()))
    os.makedirs(os.path.join(base, "home"))


def run_life(item):
    k, life, base = item
    root = os.path.join(base, "p%d" % k)
    os.makedirs(root, exist_ok=True)
    env = {kk: v for kk, v in os.environ.items() if kk not in ("LANG", "LC_ALL", "LC_CTYPE", "LANGUAGE", "PYTHONHASHSEED")}
    env["PYTHONHASHSEED"] = life["seed"]
    env["HOME"] = os.path.join(base, "home")
    if life["loc"].startswith("LANG="):
        env["LANG"] = life["loc"][5:]
    else:
        env["LC_ALL"] = life["loc"]
    env["PYTHONDONTWRITEBYTECODE"] = "1"
    job = json.dumps({"root": root, "order": life["served"], "mode": life["mode"], "batch": 4})
    try:
        p = subprocess.run([sys.executable, os.path.join(HERE, "c06_worker.py")], input=job.encode(), capture_output=True, env=env,
                           cwd=os.path.join(base, "cwd" + life["cwd"]), timeout=600)
    except subprocess.TimeoutExpired:
        return {"k": k, "error": "worker timed out", "recs": []}
    shutil.rmtree(root, ignore_errors=True)
    if p.returncode != 0:
        return {"k": k, "error": "worker exit %d: %s" % (p.returncode, p.stderr.decode("utf-8", "replace")[-1500:]), "recs": []}
    recs = []
    for ln in p.stdout.decode("utf-8").splitlines():
        if ln.startswith("{"):
            recs.append(json.loads(ln))
    return {"k": k, "error": "", "recs": recs}


def run(ctx):
    base = tempfile.mkdtemp(prefix="c06.", dir=os.environ.get("VERIF_SCRATCH", "/var/tmp"))
    try:
        setup_dirs(base)
        calls = W.all_calls()
        B0 = {"seed": "0", "cwd": "A", "loc": "C.UTF-8", "mode": "seq"}
        lives = [dict(B0, served=list(calls), tag="baseline")]
        lives += [dict(B0, served=[c], tag="fresh") for c in calls]
        for s in SEEDS[1:]:
            lives.append(dict(B0, seed=s, served=list(calls), tag="axis"))
        lives.append(dict(B0, seed="random", served=list(calls), tag="axis"))
        lives.append(dict(B0, cwd="B", served=list(calls), tag="axis"))
        for lc in LOCALES[1:]:
            lives.append(dict(B0, loc=lc, served=list(calls), tag="axis"))
        for m in MODES[1:]:
            lives.append(dict(B0, mode=m, served=list(calls), tag="axis"))
        lives.append(dict(B0, mode="threads", served=list(calls), tag="axis"))            # thread schedules differ from run to run
        # model-generated lives
        one = dict(Seeds={"0"}, Cwds={"A"}, Locales={"C.UTF-8"}, Modes={"seq"}, Repeat=1)
        small = [("grammar_orders", W.GRAMMAR_CALLS), ("validate_orders", W.VALIDATE_CALLS)]
        for tag, cs in small:
            cset = set(cs if ctx.thorough else cs[:4])
            res = ctx.model("Determinism", tag="Determinism_" + tag, constants=dict(one, Calls=cset), invariants=["EmitLife"], required_actions=["Serve"])
            for ps in res.payload_lines():
                lives.append(dict(ps, tag=tag))
        if ctx.thorough:
            res = ctx.model("Determinism", tag="Determinism_repeat", constants=dict(one, Calls=set(W.GRAMMAR_CALLS[:3]), Repeat=2, Modes={"seq", "threads"}),
                            invariants=["EmitLife"], required_actions=["Serve"])
            for ps in res.payload_lines():
                lives.append(dict(ps, tag="repeat"))
        nsim = 160 if ctx.thorough else 14
        rep = 2 if ctx.thorough else 1
        res = ctx.model("Determinism", tag="Determinism_sim", constants=dict(Calls=set(calls), Seeds=set(SEEDS), Cwds=set(CWDS), Locales=set(LOCALES),
                        Modes=set(MODES), Repeat=rep), invariants=["EmitLife"], simulate="num=%d" % nsim, depth=len(calls) * rep + 1, workers=1,
                        seed=ctx.seed if ctx.seed is not None else 20260926)
        seen = set()
        for ps in res.payload_lines():
            key = json.dumps(ps, sort_keys=True)
            if key not in seen:
                seen.add(key)
                lives.append(dict(ps, tag="simulated"))
        outs = engine.parallel_map(run_life, [(k, lv, base) for k, lv in enumerate(lives)], chunk=1)
    finally:
        shutil.rmtree(base, ignore_errors=True)
    bad = [o for o in outs if o["error"]]
    if bad:
        raise engine.Machinery("C06 worker failed: life %s: %s" % (lives[bad[0]["k"]], bad[0]["error"]))
    # records grouped by call; the baseline life's observation first
    by_call = {c: [] for c in calls}
    texts = {}
    i = 0
    for o in sorted(outs, key=lambda o: o["k"]):
        lv = lives[o["k"]]
        if len(o["recs"]) != len(lv["served"]):
            raise engine.Machinery("C06 worker returned %d results for %d calls" % (len(o["recs"]), len(lv["served"])))
        for r in o["recs"]:
            parts = [{"k": k, "d": hashlib.sha256(v.encode()).hexdigest()[:20]} for k, v in r["parts"]]
            rec = {"i": i, "call": r["call"], "seed": lv["seed"], "cwd": lv["cwd"], "loc": lv["loc"], "mode": lv["mode"],
                   "hist": lv["served"][:r["pos"]], "parts": parts}
            by_call[r["call"]].append(rec)
            texts[i] = (o["k"], dict(r["parts"]))
            i += 1
    records = [r for c in calls for r in by_call[c]]
    base_text = {c: texts[by_call[c][0]["i"]][1] for c in calls}
    fails = ctx.validate("Trace_Determinism", records, stateful_key="call")
    failures = []
    for r in records:
        if r["i"] in fails:
            k, parts = texts[r["i"]]
            diffs = {}
            for cl in fails[r["i"]]:
                part = cl.split(":", 1)[1]
                a, b = base_text[r["call"]].get(part, "<absent>"), parts.get(part, "<absent>")
                j = next((x for x in range(min(len(a), len(b))) if a[x] != b[x]), min(len(a), len(b)))
                diffs[part] = {"baseline": a[max(0, j - 60):j + 100], "observed": b[max(0, j - 60):j + 100]}
            failures.append({"i": r["i"], "case": {"call": r["call"], "life": {kk: lives[k][kk] for kk in ("seed", "cwd", "loc", "mode", "tag")},
                                                    "position": len(r["hist"]), "served_before": r["hist"][-6:]},
                             "obs": diffs, "fails": fails[r["i"]]})
    for t in texts.values():
        t[1].clear()
    nlives = len(lives)
    # the schedule of one event loop is not an input either: calls in flight together give the results of some serial order (spec/OneLoop.tla)
    from drivers import oneloop
    ol_failures, ol_cases = oneloop.run_oneloop(ctx, kinds={"content_n", "setB_n", "setC_n", "delC_n", "dry_n"})
    failures.extend(ol_failures)
    ctx.details["lives"] = {t: sum(1 for lv in lives if lv["tag"] == t) for t in sorted({lv["tag"] for lv in lives})}
    return engine.report(
        ctx, failures=failures, matchers=MATCHERS, evaluations=len(records) + ol_cases, distinct_nontrivial=len(records) - len(calls),
        rule="cases = process lives: the baseline life (seed 0, directory A, C.UTF-8, sequential, canonical order), one fresh process per "
             "call, one life per single-axis change (hash seeds 1 / 4242 / random twice, directory B with decoy schema files, locales C / "
             "POSIX / LANG only, asyncio.gather, thread pool twice), every order of the grammar calls and of the schema-validation calls "
             "(spec/Determinism.tla exhaustive), and TLC-simulated lives over the full call set x all axes; non-trivial = observation "
             "compared with a baseline; evaluations = calls served (%d lives)" % nlives,
        samples=[{"call": records[k]["call"], "life": {kk: records[k][kk] for kk in ("seed", "cwd", "loc", "mode")}, "served_before": len(records[k]["hist"]),
                  "parts": [p["k"] for p in records[k]["parts"]][:8]} for k in (1, len(records) // 2, len(records) - 1)],
        exhaustive=False,
        descr=lambda fl, clause: ("one_loop=%s observed=%s" % (json.dumps(fl["case"]["one_loop"]), json.dumps(fl["obs"])[:300])) if "one_loop" in fl["case"]
        else "call=%s life=%s position=%d diff=%s" % (fl["case"]["call"], json.dumps(fl["case"]["life"], sort_keys=True), fl["case"]["position"],
                                                                            json.dumps(fl["obs"].get(clause.split(":", 1)[1], {}), ensure_ascii=True)[:400]),
        assumptions=["one loop: write calls started together with asyncio.gather on one loop (bounded rendezvous at os.replace) must give the results and "
                     "final file of some serial order of the same calls",
                     "compared byte for byte after masking: the scratch directory and target paths given to the call (arguments), and the "
                     "value of keys named timestamp (routing entries)",
                     "a write call's target file is removed before the call (the file system state is part of the call's arguments)",
                     "CLI commands run through click's CliRunner, which swaps sys.stdout: they are served between the concurrent batches, "
                     "not inside them",
                     "PYTHONHASHSEED=random and thread schedules are not reproducible: a difference found there is a real witness, absence "
                     "of a difference is sampled evidence only",
                     "en_US.UTF-8 is not installed in this image: locales are C.UTF-8, C, POSIX via LC_ALL and C.UTF-8 via LANG only"])


MATCHERS = {}
