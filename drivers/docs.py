"""Document family (C01, C02, C03, C07): generator runs, replay into the real reader/emitter/tools,
projection of the AST into the vocabulary of spec/Content.tla, trace validation with spec/Trace_Docs.tla."""
from __future__ import annotations

import hashlib
import json
import os
import re
import shutil
import tempfile

from mbt import engine
from mbt.engine import enc
from drivers.common import run_async, text_atoms

_UNI = re.compile(r"^U[0-9A-F]{4,5}$")

ALL_FEAT = ["block", "target", "section", "annot", "comment", "trail", "zonechild", "dupkey", "cind", "c3"]


MARKERS = {"@MW", "@TQ"}


def chunk_text(c):
    if c in MARKERS:
        return ""
    if _UNI.match(c):
        return chr(int(c[1:], 16))
    return c


def lines_text(lines, final=1):
    return "\n".join("".join(chunk_text(c) for c in ln) for ln in lines) + "\n" * final


# ---------------------------------------------------------------- projection of the AST (trusted, small)
NOVAL = {"t": "none", "s": "", "xs": []}


def pv(v):
    from octave_mcp.core.ast_nodes import HolographicValue, InlineMap, ListValue, LiteralZoneValue

    if v is None:
        return {"t": "null", "s": "", "xs": []}
    if isinstance(v, bool):
        return {"t": "bool", "s": "true" if v else "false", "xs": []}
    if isinstance(v, int):
        return {"t": "int", "s": str(v), "xs": []}
    if isinstance(v, float):
        return {"t": "float", "s": repr(v), "xs": []}
    if isinstance(v, str):
        return {"t": "str", "s": enc(v), "xs": []}
    if isinstance(v, ListValue):
        xs = []
        for it in v.items:
            if isinstance(it, InlineMap):
                for k, val in it.pairs.items():
                    xs.append({"t": "pair", "s": enc(str(k)), "xs": [pv(val)]})
            else:
                xs.append(pv(it))
        return {"t": "list", "s": "", "xs": xs}
    if isinstance(v, InlineMap):
        return {"t": "map", "s": "", "xs": [{"t": "pair", "s": enc(str(k)), "xs": [pv(val)]} for k, val in v.pairs.items()]}
    if isinstance(v, dict):
        return {"t": "map", "s": "", "xs": [{"t": "pair", "s": enc(str(k)), "xs": [pv(val)]} for k, val in v.items()]}
    if isinstance(v, HolographicValue):
        return {"t": "holo", "s": enc(v.raw_pattern), "xs": []}
    if isinstance(v, LiteralZoneValue):
        lines = v.content.split("\n") if v.content != "" else []
        return {"t": "zone", "s": "%d:%s" % (len(v.fence_marker), enc(v.info_tag or "")),
                "xs": [{"t": "ln", "s": enc(x), "xs": []} for x in lines]}
    return {"t": "other:" + type(v).__name__, "s": "", "xs": []}


def _item(d, k, key, v=NOVAL, tgt="-", sid="-", ann="-", trail="-"):
    return {"d": d, "k": k, "key": key, "v": v, "tgt": tgt, "sid": sid, "ann": ann, "trail": trail}


def _flatten(node, depth, out):
    from octave_mcp.core.ast_nodes import Assignment, Block, Comment, Section

    for c in getattr(node, "leading_comments", None) or []:
        out.append(_item(0, "comment", enc(c)))
    if isinstance(node, Assignment):
        tr = node.trailing_comment
        out.append(_item(depth, "assign", enc(node.key), pv(node.value), trail=enc(tr) if tr else "-"))
    elif isinstance(node, Block):
        out.append(_item(depth, "block", enc(node.key), tgt=enc(node.target) if node.target else "-"))
        for ch in node.children:
            _flatten(ch, depth + 1, out)
    elif isinstance(node, Section):
        out.append(_item(depth, "section", enc(node.key), sid=enc(node.section_id),
                         ann=enc(node.annotation) if node.annotation is not None else "-"))
        for ch in node.children:
            _flatten(ch, depth + 1, out)
    elif isinstance(node, Comment):
        out.append(_item(0, "comment", enc(node.text)))
    else:
        out.append(_item(depth, "other:" + type(node).__name__, ""))


def project(doc):
    body = []
    for s in doc.sections:
        _flatten(s, 0, body)
    for c in doc.trailing_comments or []:
        body.append(_item(0, "comment", enc(c)))
    meta = [{"key": enc(str(k)), "v": pv(v)} for k, v in doc.meta.items()]
    return {"env": enc(doc.name), "sent": enc(doc.grammar_version) if doc.grammar_version else "-",
            "fm": enc(doc.raw_frontmatter) if doc.raw_frontmatter is not None else "-",
            "meta": meta, "sep": bool(doc.has_separator), "body": body}


EMPTY_ABS = {"env": "", "sent": "-", "fm": "-", "meta": [], "sep": False, "body": []}

REWRITE_SUBTYPES = {"multi_word_coalesce": "mw"}


def receipts_of(warnings):
    """Project reader warnings to the receipt vocabulary of Surface!Receipts; advisory warnings are dropped."""
    out = []
    other = 0
    for w in warnings:
        t = w.get("type")
        if t == "normalization":
            orig = w.get("original", "")
            if orig == '"""':
                out.append({"kind": "tq", "orig": '"""', "norm": "-", "line": int(w.get("line", 0)), "col": int(w.get("column", 0))})
            else:
                out.append({"kind": "norm", "orig": enc(str(orig)), "norm": "".join(text_atoms(str(w.get("normalized", "")))),
                            "line": int(w.get("line", 0)), "col": int(w.get("column", 0))})
        elif t == "lenient_parse" and w.get("subtype") == "multi_word_coalesce":
            out.append({"kind": "mw", "orig": "-", "norm": "-", "line": int(w.get("line", 0)), "col": int(w.get("column", 0))})
        elif t == "repair_candidate":
            out.append({"kind": "curly", "orig": enc(str(w.get("original", ""))), "norm": enc(str(w.get("repaired", ""))),
                        "line": int(w.get("line", 0)), "col": int(w.get("column", 0))})
        elif t == "lenient_parse" and w.get("subtype") in ("source_compile_value", "bare_line_dropped", "unclosed_list",
                                                            "pattern_autoquote"):
            out.append({"kind": str(w.get("subtype")), "orig": "-", "norm": "-", "line": int(w.get("line", 0)),
                        "col": int(w.get("column", 0))})
        else:
            other += 1
    return out


def text_obs(text):
    body = text.rstrip("\n")
    nl = len(text) - len(body)
    return {"lines": [text_atoms(x) for x in body.split("\n")], "nl": nl}


def sha(t):
    return hashlib.sha256(t.encode("utf-8", "surrogatepass")).hexdigest()[:20]


# ---------------------------------------------------------------- routes (C01)
_state = {}


def _tools():
    if not _state:
        from click.testing import CliRunner
        from octave_mcp.cli.main import cli
        from octave_mcp.mcp.validate import ValidateTool
        from octave_mcp.mcp.write import WriteTool

        _state["v"] = ValidateTool()
        _state["w"] = WriteTool()
        _state["cli"] = cli
        _state["runner"] = CliRunner()
        _state["dir"] = tempfile.mkdtemp(prefix="docs.", dir=os.environ.get("VERIF_SCRATCH", "/var/tmp"))
    return _state


def _route(name, canon_fn, text):
    """canon_fn(text) -> canonical text or raises/returns None when the route refuses the input."""
    from octave_mcp.core.parser import parse

    try:
        c1 = canon_fn(text)
    except Exception:
        c1 = None
    if c1 is None:
        return {"route": name, "accepted": False, "reread_ok": False, "fix": False}
    try:
        parse(c1)
        ok = True
    except Exception:
        ok = False
    try:
        c2 = canon_fn(c1)
    except Exception:
        c2 = None
    return {"route": name, "accepted": True, "reread_ok": ok and c2 is not None, "fix": c2 == c1, "c1": c1, "c2": c2}


def routes_for(text, which):
    from octave_mcp.core.emitter import emit
    from octave_mcp.core.parser import parse, parse_with_warnings

    st = _tools()
    out = []

    def api_lenient(t):
        return emit(parse_with_warnings(t)[0])

    def api_strict(t):
        return emit(parse(t))

    def validate_tool(t):
        r = run_async(st["v"].execute(content=t, schema="NONE_SUCH"))
        return r["canonical"] if r.get("status") == "success" else None

    def _write(t, **kw):
        p = os.path.join(st["dir"], "w%d.oct.md" % os.getpid())
        if os.path.exists(p):
            os.unlink(p)
        r = run_async(st["w"].execute(target_path=p, content=t, **kw))
        if r.get("status") != "success":
            return None
        with open(p, encoding="utf-8", newline="") as f:
            c = f.read()
        # a client previews an amendment of the written file first (dry run): nothing it previews may show up afterwards
        run_async(st["w"].execute(target_path=p, changes={"PREVIEW_ONLY": [1, 2], "META.PREVIEW": "x"}, corrections_only=True))
        # second leg of the statement: normalize mode on the written file must report no change
        r2 = run_async(st["w"].execute(target_path=p))
        if r2.get("status") != "success" or r2.get("diff") != "No changes" or r2.get("canonical_hash") != r.get("canonical_hash"):
            with open(p, encoding="utf-8", newline="") as f:
                return c + "\x00NORMALIZE-CHANGED:" + str(r2.get("status")) + ":" + str(r2.get("diff"))[:60]
        return c

    def write_strict(t):
        return _write(t)

    def write_lenient(t):
        return _write(t, lenient=True)

    def _cli(args, t):
        p = os.path.join(st["dir"], "c%d.oct.md" % os.getpid())
        with open(p, "w", encoding="utf-8", newline="") as f:
            f.write(t)
        return p, st["runner"].invoke(st["cli"], [a.replace("@F", p) for a in args], catch_exceptions=True)

    def cli_normalize(t):
        p, r = _cli(["normalize", "@F"], t)
        if r.exit_code != 0:
            return None
        return r.output

    def cli_validate(t):
        p, r = _cli(["validate", "@F"], t)
        if r.exit_code != 0:
            return None
        out_ = r.output
        j = out_.rfind("\nvalidation_status:")
        return out_[:j].rstrip("\n") + "\n" if j >= 0 else out_

    def cli_write(t):
        p = os.path.join(st["dir"], "cw%d.oct.md" % os.getpid())
        if os.path.exists(p):
            os.unlink(p)
        r = st["runner"].invoke(st["cli"], ["write", p, "--content", t], catch_exceptions=True)
        if r.exit_code != 0:
            return None
        with open(p, encoding="utf-8", newline="") as f:
            return f.read()

    table = {"api_lenient": api_lenient, "api_strict": api_strict, "validate_tool": validate_tool,
             "write_strict": write_strict, "write_lenient": write_lenient, "cli_normalize": cli_normalize,
             "cli_validate": cli_validate, "cli_write": cli_write}
    for name in which:
        out.append(_route(name, table[name], text))
    return out


def cleanup_tmp():
    base = os.environ.get("VERIF_SCRATCH", "/var/tmp")
    for n in os.listdir(base):
        if n.startswith("docs."):
            shutil.rmtree(os.path.join(base, n), ignore_errors=True)


# ---------------------------------------------------------------- replay of one case
API_ROUTES = ["api_lenient", "api_strict"]
TOOL_ROUTES = ["validate_tool", "write_strict", "write_lenient", "cli_normalize", "cli_validate", "cli_write"]


_held = {}


def replay(item):
    """one document; every 8th document is held and read again four documents later in the same process: the observation must be
    the same (repeat_ok)"""
    rec = _replay_once(item)
    rec["obs"]["repeat_ok"] = True
    i = item[0]
    if i % 8 == 0:
        _held["item"], _held["obs"] = item, json.dumps(rec["obs"], sort_keys=True)
    elif i % 8 == 4 and _held.get("item") is not None and _held["item"][0] == i - 4:
        again = _replay_once(_held["item"])
        again["obs"]["repeat_ok"] = True
        if json.dumps(again["obs"], sort_keys=True) != _held["obs"]:
            rec["obs"]["repeat_ok"] = False
            rec["repeat_of"] = _held["item"][0]
        _held.clear()
    return rec


def _replay_once(item):
    from octave_mcp.core.emitter import emit
    from octave_mcp.core.parser import parse, parse_with_warnings

    i, case, prop, tools = item
    doc = case["doc"]
    text = lines_text(case["lines"], doc["g"]["final"])
    # convergence group: same content; the indentation of a comment is not one of the documented lenient
    # freedoms, so documents that differ in where a comment sits (depth, off-grid column) are different groups
    gid = sha(json.dumps(case["abs"], sort_keys=True)
              + json.dumps([(it["d"], it["sp"]["cind"]) for it in doc["body"] if it["k"] == "comment"]))
    obs = {"accepted": False, "err": "-", "read": EMPTY_ABS, "canon": {"lines": [], "nl": 0}, "canon_hash": "",
           "reread_ok": False, "reread": EMPTY_ABS, "receipts": [], "canon_receipts": 0, "routes": [], "surfaced": []}
    try:
        d, warnings = parse_with_warnings(text)
        canon = emit(d)
        obs["accepted"] = True
    except Exception as e:
        obs["err"] = type(e).__name__ + ":" + str(getattr(e, "error_code", ""))
        d = None
    if d is not None:
        obs["read"] = project(d)
        obs["canon_hash"] = sha(canon)
        if prop == "C03":
            obs["canon"] = text_obs(canon)
        try:
            d2 = parse(canon)
            obs["reread_ok"] = True
            obs["reread"] = project(d2)
        except Exception as e:
            obs["err"] = "reread:" + type(e).__name__
        if prop == "C07":
            obs["receipts"] = receipts_of(warnings)
            try:
                obs["canon_receipts"] = len(receipts_of(parse_with_warnings(canon)[1]))
            except Exception:
                obs["canon_receipts"] = 0
            obs["surfaced"] = surfaced(text, obs["receipts"]) if tools else []
    if prop == "C01":
        obs["routes"] = [{k: v for k, v in r.items() if k not in ("c1", "c2")}
                         for r in routes_for(text, API_ROUTES + (TOOL_ROUTES if tools else []))]
    if prop != "C02":
        obs["read"] = EMPTY_ABS if prop != "C02" else obs["read"]
        obs["reread"] = EMPTY_ABS
    rec = {"i": i, "gid": gid, "case": {"doc": doc, "lines": case["lines"]}, "obs": obs, "text": text}
    return rec


OLD_LENIENT_ONLY = '===OLD===\nCFG::[outer::[inner::1]]\nFLOW::A -> B\nWORDS::several bare words\n===END===\n'
OLD_HANDWRITTEN = '===OLD===\nFLOW::A -> B -> C\nWORDS::several bare words\nT::"""triple"""\nTENSION::X vs Y\n===END===\n'


def surfaced(text, receipts):
    """Do octave_validate.repairs and octave_write.corrections surface the reader's receipts? (C07)"""
    st = _tools()
    want = sorted((r["kind"], r["line"], r["col"]) for r in receipts if r["kind"] in ("norm", "tq", "mw"))
    out = []
    for prof in ("STANDARD", "STRICT", "LENIENT", "ULTRA"):
        r = run_async(st["v"].execute(content=text, schema="NONE_SUCH", profile=prof))
        got = sorted((x["kind"], x["line"], x["col"]) for x in receipts_of(r.get("repairs", [])) if x["kind"] in ("norm", "tq", "mw"))
        ok = r.get("status") != "success" or got == want
        out.append({"route": "validate.repairs" + ("" if prof == "STANDARD" else "." + prof), "ok": ok, "why": "-" if ok else "other"})
    fresh_lenient = {}
    for mode, kw in (("write.corrections_only.lenient", {"lenient": True}), ("write.corrections_only.strict", {}),
                     ("write.corrections_only.lenient.over_old_file", {"lenient": True}), ("write.corrections_only.strict.over_old_file", {}),
                     ("write.corrections_only.lenient.over_lenient_only_file", {"lenient": True}), ("write.corrections_only.strict.over_lenient_only_file", {})):
        p = os.path.join(st["dir"], "s%d.oct.md" % os.getpid())
        if mode.endswith("_file"):
            # the target already holds somebody's hand-written text with rewrite sites of its own (one that every reader accepts / one that
            # only the lenient reader accepts): they are not receipts of THIS input
            with open(p, "w", encoding="utf-8", newline="") as f:
                f.write(OLD_HANDWRITTEN if mode.endswith("over_old_file") else OLD_LENIENT_ONLY)
        elif os.path.exists(p):
            os.unlink(p)
        r = run_async(st["w"].execute(target_path=p, content=text, corrections_only=True, **kw))
        if r.get("status") != "success":
            out.append({"route": mode, "ok": True, "why": "-"})
            continue
        cs = r.get("corrections", [])
        n_norm = sum(1 for c in cs if c.get("code") == "W002")
        n_mw = sum(1 for c in cs if "MULTI_WORD" in str(c.get("code", "")))
        w_norm = sum(1 for k in want if k[0] in ("norm", "tq"))
        w_mw = sum(1 for k in want if k[0] == "mw")
        pos_ok = sorted((c.get("line"), c.get("column")) for c in cs if c.get("code") == "W002") == \
            sorted((k[1], k[2]) for k in want if k[0] in ("norm", "tq"))
        # receipts of rewrites the generator never asks for (brace repair, markdown unwrap, salvage, raw wrap): nothing it writes
        # outside literal zones / comments owes one (advisories such as W_DUPLICATE_KEY are not receipts)
        n_extra = sum(1 for c in cs if c.get("code") in ("W_REPAIR_CANDIDATE", "W_MARKDOWN_UNWRAP", "W_SALVAGE_LINE", "W_SALVAGE_LOCALIZED", "W_STRUCT_RAW_WRAP"))
        # receipts of the lenient reader are receipts about the INPUT: over an old file the call reports the ones it reports over no file
        len_codes = sorted((str(c.get("code")), c.get("line"), c.get("column")) for c in cs if str(c.get("code", "")).startswith("W_LENIENT"))
        if mode.endswith("_file"):
            n_extra += 0 if len_codes == fresh_lenient.get(bool(kw.get("lenient")), len_codes) else 1
        else:
            fresh_lenient[bool(kw.get("lenient"))] = len_codes
        ok = n_norm == w_norm and n_mw == w_mw and pos_ok and n_extra == 0
        why = "-" if ok else ("mw-missing" if (n_norm == w_norm and pos_ok and n_mw == 0 and w_mw > 0 and n_extra == 0) else "other")
        out.append({"route": mode, "ok": ok, "why": why})
    return out


# ---------------------------------------------------------------- generator configurations
ALL_KNOBS = {"alt", "pre", "post", "blank", "trsp", "op", "cind", "ind", "envOmit", "endOmit", "final"}


def gen_runs(ctx, prop):
    """(tag, constants) for the TLC generator runs of this tier."""
    core = "@CoreIds"
    full = "@ValIds"
    mini = {"w", "two", "int", "flow", "l3", "lmap", "z1", "nl"}
    micro = {"w", "flow", "l3", "z1"}
    feat_all = set(ALL_FEAT)
    feat_struct = {"block", "target", "section", "comment", "zonechild", "dupkey", "cind"}
    K = ALL_KNOBS
    runs = []

    def R(tag, **kw):
        base = dict(MaxItems=1, MaxDepth=0, MaxDev=0, PoolA=set(), PoolB=set(), PoolC=set(), HeaderMode="plain",
                    HeaderMaxBody=0, Feat=set(), Knobs=set())
        base.update(kw)
        runs.append((tag, base))

    if not ctx.thorough:
        R("one_full_dev2", MaxItems=1, MaxDev=2, PoolA=full, Feat={"trail", "section", "annot", "block", "target", "comment", "hoist", "c3"}, Knobs=K)
        R("one_headers", MaxItems=2, MaxDev=1, PoolA={"w", "l3", "zoct"}, PoolB={"w"}, HeaderMode="all", HeaderMaxBody=2, Feat={"comment", "block", "hoist"},
          Knobs={"alt", "ind", "final", "endOmit", "envOmit"})
        R("two_core_dev1", MaxItems=2, MaxDepth=1, MaxDev=1, PoolA=core, PoolB=micro, Feat=feat_all, Knobs=K)
        R("meta_values", MaxItems=1, MaxDev=1, PoolA={"w"}, PoolC=core, HeaderMode="metavals", HeaderMaxBody=1, Knobs={"ind", "final"})
        R("three_struct", MaxItems=3, MaxDepth=2, MaxDev=0, PoolA={"w", "l3"}, PoolB={"int", "z1"}, PoolC={"w", "l3"}, Feat=feat_struct)
        R("three_comments", MaxItems=3, MaxDepth=2, MaxDev=2, PoolA={"w"}, PoolB={"int"}, PoolC={"w"},
          Feat={"block", "section", "comment", "cind"}, Knobs={"blank", "cind"})
        R("four_blocks", MaxItems=4, MaxDepth=3, MaxDev=1, PoolA={"w"}, PoolB={"int"}, PoolC={"l3"},
          Feat={"block", "comment", "cind"}, Knobs={"ind", "cind"})
        R("four_sections", MaxItems=4, MaxDepth=3, MaxDev=0, PoolA={"w"}, PoolB={"int"}, PoolC={"l3"},
          Feat={"block", "section"})
    else:
        # sized to about 1M documents in total (measured state counts in comments); the whole list is held in memory and replayed
        R("one_full_dev3", MaxItems=1, MaxDev=3, PoolA=full, Feat={"trail", "section", "annot", "block", "target", "comment", "hoist", "c3"}, Knobs=K)
        R("two_headers", MaxItems=2, MaxDepth=1, MaxDev=1, PoolA=micro, PoolB={"w", "l3"}, HeaderMode="all", HeaderMaxBody=2,
          Feat={"comment", "block", "section", "hoist"}, Knobs={"alt", "final", "endOmit", "envOmit"})
        R("two_full_dev1", MaxItems=2, MaxDepth=1, MaxDev=1, PoolA=full, PoolB=micro, Feat=feat_all, Knobs=K)
        R("meta_values", MaxItems=1, MaxDev=1, PoolA={"w"}, PoolC=full, HeaderMode="metavals", HeaderMaxBody=1, Knobs={"ind", "final", "endOmit"})
        R("two_core_dev2", MaxItems=2, MaxDepth=1, MaxDev=2, PoolA=core, PoolB=micro, Feat=feat_struct, Knobs=K)
        R("three_mini_dev1", MaxItems=3, MaxDepth=2, MaxDev=1, PoolA=mini, PoolB=mini, PoolC=micro, Feat=feat_struct, Knobs={"alt", "ind", "cind", "blank", "op"})
        R("four_comments", MaxItems=4, MaxDepth=2, MaxDev=1, PoolA={"w"}, PoolB={"int"}, PoolC={"w"},
          Feat={"block", "section", "comment", "cind"}, Knobs={"blank", "cind"})
        R("five_nesting", MaxItems=5, MaxDepth=3, MaxDev=0, PoolA={"w"}, PoolB={"int"}, PoolC={"l3"},
          Feat={"block", "section", "comment"})
    return runs


def generate(ctx, prop):
    cases = []
    seen = set()
    for tag, consts in gen_runs(ctx, prop):
        res = ctx.model("Author", tag="Author_" + tag, constants=consts,
                        invariants=["EmitCase", "BodyWellFormed", "PlainIsQuiet", "BudgetRespected"],
                        required_actions=["AddItem"], heap="8g")
        for c in res.payload_lines():
            key = json.dumps(c["doc"], sort_keys=True)
            if key in seen:
                continue
            seen.add(key)
            cases.append(c)
    return cases


# ---------------------------------------------------------------- the check
RULES = {
    "C01": "non-trivial = the reader accepted the document and it has >= 1 body item or header feature",
    "C02": "non-trivial = document has >= 1 body item, META entry or frontmatter",
    "C03": "non-trivial = spelling deviates from the plainest one at >= 1 site (dev >= 1)",
    "C07": "non-trivial = the spelling owes >= 1 receipt",
}


def generate_runs(ctx, prop):
    """like generate(), one list of cases per generator run (documents already produced by an earlier run are dropped)"""
    seen = set()
    for tag, consts in gen_runs(ctx, prop):
        res = ctx.model("Author", tag="Author_" + tag, constants=consts,
                        invariants=["EmitCase", "BodyWellFormed", "PlainIsQuiet", "BudgetRespected"],
                        required_actions=["AddItem"], heap="8g")
        cases = []
        for c in res.payload_lines():
            key = sha(json.dumps(c["doc"], sort_keys=True))
            if key in seen:
                continue
            seen.add(key)
            cases.append(c)
        yield cases


def _process(ctx, prop, cases, tools_every, base_i):
    """replay + trace validation of one list of cases -> (failures, nontrivial, evaluations, samples, nrecords)"""
    # the tool routes take every tools_every-th document, and every document that has BOTH frontmatter and a literal zone (the write path
    # strips the one and looks for fences of the other before the reader sees the text)
    def both(c):
        return c["doc"].get("fm") not in (None, "-") and "```" in json.dumps(c.get("lines", ""))
    items = [(base_i + i, c, prop, ((base_i + i) % tools_every == 0) or both(c)) for i, c in enumerate(cases)]
    try:
        records = engine.parallel_map(replay, items, chunk=100)
    finally:
        cleanup_tmp()
    # plainest spelling first inside each content group (binds the convergence memo)
    devs = {base_i + c_i: c["dev"] for c_i, c in enumerate(cases)}
    records.sort(key=lambda r: (r["gid"], devs[r["i"]], r["i"]))
    trace = [{k: v for k, v in r.items() if k not in ("text", "repeat_of")} for r in records]
    fails = ctx.validate("Trace_Docs", trace, constants={"Prop": prop}, stateful_key="gid", tag="Trace_Docs_%s_%d" % (prop, base_i))
    failures = []
    for r in records:
        if r["i"] in fails:
            c = cases[r["i"] - base_i]
            failures.append({"i": r["i"], "case": {"doc": r["case"]["doc"], "lines": r["case"]["lines"], "abs": c["abs"],
                                                   "dev": c["dev"], "receipts": c.get("receipts", [])},
                             "obs": r["obs"], "text": r["text"], "fails": fails[r["i"]]})
    if prop == "C02":
        nontrivial = sum(1 for c in cases if c["doc"]["body"] or c["doc"]["meta"] or c["doc"]["fm"] != "-")
    elif prop == "C03":
        nontrivial = sum(1 for c in cases if c["dev"] >= 1)
    elif prop == "C07":
        nontrivial = sum(1 for c in cases if c["receipts"])
    else:
        nontrivial = sum(1 for r in records if r["obs"]["routes"] and r["obs"]["routes"][0]["accepted"]
                         and (r["case"]["doc"]["body"] or r["case"]["doc"]["meta"]))
    samples = [{"text": r["text"], "obs": _brief(r["obs"], prop)} for r in records[3:len(records):max(1, len(records) // 5)]][:5]
    evaluations = len(records) if prop != "C01" else sum(len(r["obs"]["routes"]) for r in records)
    return failures, nontrivial, evaluations, samples, len(records)


def run(ctx, prop, matchers=None, descr=None, tools_every=1, extra_failures=(), extra_eval=0, extra_nontrivial=0, extra_cov=None):
    if ctx.replay:
        rp = json.load(open(ctx.replay))
        cases = [rp["case"]]
        if "abs" not in cases[0]:
            cases[0]["abs"] = rp.get("abs", {})
        batches = [cases]
    elif prop == "C01":
        # C01 keeps six routes per document: one generator run at a time bounds the memory (Lifecycle is judged per record)
        batches = generate_runs(ctx, prop)
    else:
        batches = [generate(ctx, prop)]          # the convergence memo of C03 spans generator runs
    failures, nontrivial, evaluations, samples, base_i = [], 0, 0, [], 0
    for cases in batches:
        f, n, e, smp, nrec = _process(ctx, prop, cases, tools_every, base_i)
        failures += f
        nontrivial += n
        evaluations += e
        samples = (samples + smp)[:5]
        base_i += len(cases)
        del cases
    failures += list(extra_failures)
    nontrivial += extra_nontrivial
    return engine.report(
        ctx, failures=failures, matchers=matchers or {}, evaluations=evaluations + extra_eval, distinct_nontrivial=nontrivial,
        extra_coverage=extra_cov,
        rule="cases = reachable states of spec/Author.tla (documents = content + spelling knobs, <= MaxDev knobs deviating), "
             "TLC breadth-first and complete for each constant set in model_runs; distinct = distinct (content, spelling); "
             + RULES[prop],
        samples=samples, exhaustive=True, descr=descr or _descr,
        assumptions=["harness: chunks->text and the projection of the AST to spec/Content.tla's vocabulary are trusted",
                     "the value pool and its spellings (spec/Values.tla) stand for 'the documented surface grammar'; "
                     "spellings not in the pool are not explored",
                     "comments are compared by text and order relative to the other nodes; their depth is treated as layout"])


def _brief(obs, prop):
    if prop == "C01":
        return {"routes": obs["routes"]}
    if prop == "C02":
        return {"accepted": obs["accepted"], "body": obs["read"]["body"][:3]}
    if prop == "C03":
        return {"accepted": obs["accepted"], "canon_hash": obs["canon_hash"], "canon_lines": len(obs["canon"]["lines"])}
    return {"accepted": obs["accepted"], "receipts": obs["receipts"][:4], "canon_receipts": obs["canon_receipts"]}


def _descr(fl, clause):
    return "input=%r" % fl["text"][:160]
