"""Helpers shared by the drivers: atoms <-> text, value projection, tool invocation."""
from __future__ import annotations

import asyncio
import json
import unicodedata

WORDS = {"true", "false", "null", "vs", "//", "::", "->", "<->", "==="}


def atom_text(a: str) -> str:
    """One atom of spec/Alphabet.tla -> characters."""
    if len(a) >= 5 and a[0] == "U" and all(c in "0123456789ABCDEF" for c in a[1:]):
        return chr(int(a[1:], 16))
    return a


def atoms_text(atoms) -> str:
    return "".join(atom_text(a) for a in atoms)


def text_atoms(s: str):
    """Characters -> one-character atoms (printable ASCII as itself, others Uxxxx)."""
    out = []
    for ch in s:
        o = ord(ch)
        out.append(ch if 32 <= o < 127 else "U%04X" % o)
    return out


def kind_of(v) -> str:
    if v is None:
        return "null"
    if isinstance(v, bool):
        return "bool"
    if isinstance(v, int):
        return "int"
    if isinstance(v, float):
        return "float"
    if isinstance(v, str):
        return "str"
    return type(v).__name__


_loop = None


def run_async(coro):
    global _loop
    if _loop is None or _loop.is_closed():
        _loop = asyncio.new_event_loop()
    return _loop.run_until_complete(coro)


def nfc(s: str) -> str:
    return unicodedata.normalize("NFC", s)


def jdump(x) -> str:
    return json.dumps(x, ensure_ascii=True, sort_keys=True)


_tools = {}


def tool(kind):
    """the long-lived tool instance of this worker process (the MCP server creates each tool once and keeps it for its lifetime)"""
    if kind not in _tools:
        if kind == "validate":
            from octave_mcp.mcp.validate import ValidateTool as T
        elif kind == "write":
            from octave_mcp.mcp.write import WriteTool as T
        elif kind == "eject":
            from octave_mcp.mcp.eject import EjectTool as T
        else:
            from octave_mcp.mcp.compile_grammar import CompileGrammarTool as T
        _tools[kind] = T()
    return _tools[kind]
