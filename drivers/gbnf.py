"""GBNF helpers shared by C12 and C13: token scanner (trusted, small), rule-body trees, schema concretisation, compiler exits."""
from __future__ import annotations

import json
import os
import re
import tempfile

from mbt.engine import dec
from drivers import common as _common
from drivers.common import run_async

NAME_OK = set("abcdefghijklmnopqrstuvwxyzABCDEFGHIJKLMNOPQRSTUVWXYZ0123456789-")
ESC_OK = set('xuUtrn\\"[]')


def tokens(text):
    """llama.cpp grammar text -> tokens [t, v, ok]."""
    out = []
    i, n = 0, len(text)

    def tok(t, v="", ok=True):
        out.append({"t": t, "v": v, "ok": ok})

    while i < n:
        c = text[i]
        if c == "\n":
            tok("NL")
            i += 1
        elif c in " \t\r":
            i += 1
        elif c == "#":
            while i < n and text[i] != "\n":
                i += 1
        elif text.startswith("::=", i):
            tok("DEF")
            i += 3
        elif c == '"':
            j, ok, closed = i + 1, True, False
            while j < n and text[j] != "\n":
                if text[j] == "\\":
                    if j + 1 >= n or text[j + 1] not in ESC_OK:
                        ok = False
                    j += 2
                    continue
                if text[j] == '"':
                    closed = True
                    break
                j += 1
            if closed:
                tok("LIT" if ok else "BAD", text[i + 1:j])
                i = j + 1
            else:
                tok("ULIT", text[i + 1:j])
                i = j
        elif c == "[":
            j, ok, closed = i + 1, True, False
            while j < n and text[j] != "\n":
                if text[j] == "\\":
                    if j + 1 >= n or text[j + 1] not in ESC_OK:
                        ok = False
                    j += 2
                    continue
                if text[j] == "]":
                    closed = True
                    break
                j += 1
            if closed:
                tok("CLASS" if ok else "BAD", text[i + 1:j])
                i = j + 1
            else:
                tok("UCLASS", text[i + 1:j])
                i = j
        elif c == "(":
            tok("LP"); i += 1
        elif c == ")":
            tok("RP"); i += 1
        elif c == "|":
            tok("PIPE"); i += 1
        elif c == "*":
            tok("STAR"); i += 1
        elif c == "+":
            tok("PLUS"); i += 1
        elif c == "?":
            tok("QM"); i += 1
        elif c == "{":
            m = re.match(r"\{(\d+)(,(\d*))?\}", text[i:])
            if m:
                tok("REP", m.group(0))
                i += len(m.group(0))
            else:
                tok("BAD", c)
                i += 1
        elif c in NAME_OK or c == "_" or (not c.isascii() and c.isalnum()):
            j = i
            while j < n and (text[j] in NAME_OK or text[j] == "_" or (not text[j].isascii() and text[j].isalnum())):
                j += 1
            name = text[i:j]
            tok("NAME", name, all(ch in NAME_OK for ch in name))
            i = j
        else:
            tok("BAD", c)
            i += 1
    return out


# ---- concretisation of a generated schema (spec/Gbnf.tla) into schema documents
# chain ids of the model -> constraint chain text (quotes and backslashes do not survive TLC string literals + ToJson)
CHAINS = {
    "REQ": "REQ", "OPT": "OPT", "const_word": "CONST[abc]", "const_quoted": 'CONST["say \\"hi\\""]', "const_int": "CONST[42]",
    "enum_ab": "ENUM[a,b]", "enum_quote": 'ENUM["a\\"b",c]', "enum_prefix": "ENUM[LOWER,LOW,HIGH]", "enum_backslash": 'ENUM["back\\\\slash",x]',
    "type_string": "TYPE[STRING]", "type_number": "TYPE[NUMBER]", "type_boolean": "TYPE[BOOLEAN]", "type_list": "TYPE[LIST]",
    "range": "RANGE[1,10]", "min_length": "MIN_LENGTH[2]", "max_length": "MAX_LENGTH[3]", "date": "DATE", "iso8601": "ISO8601", "dir": "DIR",
    "append_only": "APPEND_ONLY", "req_enum_string": "REQ∧ENUM[a,b]∧TYPE[STRING]", "opt_number_range": "OPT∧TYPE[NUMBER]∧RANGE[1,10]",
    "re_abc": 'REGEX["^abc$"]', "re_lower_plus": 'REGEX["^[a-z]+$"]', "re_upper_2_4": 'REGEX["^[A-Z]{2,4}$"]', "re_group_plus": 'REGEX["^(ab|cd)+$"]',
    "re_escaped_dot": 'REGEX["^a\\\\.b$"]', "re_digits": 'REGEX["^\\\\d+$"]', "re_negated": 'REGEX["^[^x]*$"]', "re_alt": 'REGEX["^x|y$"]',
    "re_lazy": 'REGEX["a+?"]', "re_count": 'REGEX["^a{3}$"]', "re_decimal": 'REGEX["^[0-9]+(\\\\.[0-9]+)?$"]', "re_any": 'REGEX["^.$"]',
    "re_empty": 'REGEX["^$"]', "re_open_class": 'REGEX["^[a-z$"]', "re_open_group": 'REGEX["^(a$"]',
    # nesting and counted repetition of groups, quantifier forms, braces as text, escapes inside classes
    "re_nested_count": 'REGEX["^((a|b)c){2}$"]', "re_mac": 'REGEX["^([0-9a-f]{2}(:|-)){5}[0-9a-f]{2}$"]',
    "re_nested_star": 'REGEX["^(a(b(c)?)*)+$"]', "re_dotted": 'REGEX["^[0-9]{1,3}(\\\\.[0-9]{1,3}){3}$"]', "re_count_open": 'REGEX["^(ab){2,}c{0,1}$"]',
    "re_brace_text": 'REGEX["^a{b}c{$"]', "re_class_escapes": 'REGEX["^[a\\\\]\\\\.x]{2}[^\\\\]]$"]', "re_group_alt_empty": 'REGEX["^(a|)b$"]',
    "re_alt_top_groups": 'REGEX["^(ab)|(cd)|e$"]', "re_quote_in_pattern": 'REGEX["^say \\"hi\\"$"]', "re_unicode": 'REGEX["^caf\u00e9+$"]',
    "re_word_class": 'REGEX["^[\\\\w-]+$"]', "re_dot_star": 'REGEX["^a.*b.+c.?$"]',
    "const_newline": 'CONST["a\\nb"]', "enum_newline_tab": 'ENUM["a\\nb","c\\td"]',
}


# C13: chains decided by CONST / ENUM / TYPE[BOOLEAN] / TYPE[NUMBER] / DATE / ISO8601, alone or with REQ / OPT
C13_BASE = {
    "const_word": "CONST[abc]", "const_upper": "CONST[ACTIVE]", "const_two_words": 'CONST["two words"]', "const_quoted": 'CONST["say \\"hi\\""]',
    "const_int": "CONST[42]", "const_one": "CONST[1]", "const_neg": "CONST[-7]", "const_float": "CONST[1.5]", "const_true": "CONST[true]", "const_null": "CONST[null]",
    "const_dash": "CONST[a-b]", "const_version": 'CONST["v1.0"]', "const_numstr": 'CONST["42"]', "const_padded": 'CONST["007"]',
    "const_colons": 'CONST["a::b"]', "const_hash": 'CONST["#tag"]', "const_comment": 'CONST["a // b"]', "const_bracket": 'CONST["[x]"]',
    "const_arrow": 'CONST["a->b"]', "const_unicode": "CONST[caf\u00e9]", "const_empty": 'CONST[""]', "const_backslash": 'CONST["back\\\\slash"]',
    "const_underscore": "CONST[in_progress]", "const_leading_digit": 'CONST["2fast"]', "const_date": 'CONST["2024-01-15"]',
    "enum_ab": "ENUM[a,b]", "enum_prefix": "ENUM[LOWER,LOW,HIGH]", "enum_two_words": 'ENUM["two words",x]', "enum_quote": 'ENUM["a\\"b",c]',
    "enum_ints": "ENUM[1,2]", "enum_bool_like": "ENUM[true,maybe]", "enum_case": "ENUM[Active,ACTIVE]", "enum_prefix_amb": "ENUM[ACT,ACTIVE,ACTION]",
    "enum_dash": "ENUM[in-progress,done]", "enum_padded": 'ENUM["01","10"]', "enum_null": "ENUM[null,none]", "enum_single": "ENUM[only]",
    # members that LOOK like literals of another kind: reserved words in another letter case, decimal / exponent number texts
    "enum_wrongcase_lit": "ENUM[TRUE,FALSE]", "const_wrongcase_lit": "CONST[True]", "enum_nullish": "ENUM[Null,NULL,None]",
    "enum_decimals": 'ENUM["0.001","0.00001"]', "enum_trailing_zero": 'ENUM["0.10","0.15"]', "const_decimal": 'CONST["1.50"]',
    "enum_exp": 'ENUM["1e3","1E5"]', "const_big_decimal": 'CONST["10000000000000000.0"]',
    "type_boolean": "TYPE[BOOLEAN]", "type_number": "TYPE[NUMBER]", "date": "DATE", "iso8601": "ISO8601",
}
C13_CHAINS = {}
for _k, _v in C13_BASE.items():
    C13_CHAINS[_k] = _v
    C13_CHAINS["req_" + _k] = "REQ∧" + _v
    C13_CHAINS["opt_" + _k] = "OPT∧" + _v
CHAINS.update(C13_CHAINS)


def field_name(atom):
    return dec(atom)


def chain_text(cid):
    return CHAINS[cid]


def fields_doc(case, name="GEN_G"):
    lines = ["===%s===" % name, "META:", "  TYPE::PROTOCOL_DEFINITION", '  VERSION::"1.0"', "", "FIELDS:"]
    for f in case["fields"]:
        # the example text carries an escaped line break and a quote: nothing of it may reach the grammar
        lines.append('  %s::["first line\\nroot ::= \\"x\\""∧%s→§SELF]' % (field_name(f["name"]), chain_text(f["chain"])))
    lines += ["===END===", ""]
    return "\n".join(lines)


def contract_doc(case, name="GEN_G"):
    specs = ["FIELD[%s]::%s" % (field_name(f["name"]), chain_text(f["chain"])) for f in case["fields"]] + ["FIELD[ZZPAD]::OPT"]
    return "===%s===\nMETA:\n  TYPE::%s\n  VERSION::\"1.0\"\n  CONTRACT::[\n%s\n  ]\n---\nBODY::1\n===END===\n" % (
        name, name, ",\n".join("    " + s for s in specs))


_st = {}


def _env():
    if not _st:
        d = tempfile.mkdtemp(prefix="gbnf.", dir=os.environ.get("VERIF_SCRATCH", "/var/tmp"))
        os.makedirs(os.path.join(d, "specs", "schemas"))
        _st["dir"] = d
    os.chdir(_st["dir"])
    return _st["dir"]


def grammars(case):
    """every grammar the exits return for this schema: [(exit name, grammar text)]"""
    from octave_mcp.core.gbnf_compiler import GBNFCompiler, compile_gbnf_from_meta
    from octave_mcp.core.parser import parse
    from octave_mcp.core.schema_extractor import extract_schema_from_document
    from octave_mcp.mcp.compile_grammar import CompileGrammarTool
    from octave_mcp.mcp.eject import EjectTool
    from octave_mcp.mcp.validate import ValidateTool
    from octave_mcp.mcp.write import WriteTool

    d = _env()
    out = []

    def add(name, fn):
        try:
            g = fn()
            if isinstance(g, str) and g.strip():
                out.append((name, g))
        except Exception:
            pass                      # no grammar returned: outside the statement (C20 judges raising)

    if case["route"] == "FIELDS":
        text = fields_doc(case)
        add("api", lambda: GBNFCompiler().compile_schema(extract_schema_from_document(parse(text)), include_envelope=case["envelope"]))
        add("tool_content", lambda: run_async(_common.tool("grammar").execute(content=text)).get("grammar"))
        add("eject_gbnf", lambda: run_async(_common.tool("eject").execute(content=text, schema="META", format="gbnf")).get("output"))
        sp = os.path.join(d, "specs", "schemas", "gen_g.oct.md")
        with open(sp, "w", encoding="utf-8") as f:
            f.write(text)
        add("tool_schema", lambda: run_async(_common.tool("grammar").execute(schema="GEN_G")).get("grammar"))
        inst = "===I===\nGEN_G:\n  ZZ_UNDECLARED::1\n===END===\n"
        add("validate_hint", lambda: run_async(_common.tool("validate").execute(content=inst, schema="GEN_G", grammar_hint=True)).get("grammar_hint", {}).get("grammar"))
        add("write_hint", lambda: run_async(_common.tool("write").execute(target_path=os.path.join(d, "h.oct.md"), content=inst, schema="GEN_G", grammar_hint=True,
                                                                corrections_only=True)).get("grammar_hint", {}).get("grammar"))
        os.unlink(sp)
    else:
        text = contract_doc(case)
        add("api_contract", lambda: compile_gbnf_from_meta(parse(text).meta))
        add("tool_content_contract", lambda: run_async(_common.tool("grammar").execute(content=text)).get("grammar"))
        add("eject_gbnf_contract", lambda: run_async(_common.tool("eject").execute(content=text, schema="META", format="gbnf")).get("output"))
        specs = ["FIELD[%s]::%s" % (field_name(f["name"]), chain_text(f["chain"])) for f in case["fields"]]
        add("api_contract_strings", lambda: compile_gbnf_from_meta({"TYPE": "GEN_G", "VERSION": "1.0", "CONTRACT": specs}))
    return out


# ---- rule body trees (C13); characters are code points (quotes and backslashes do not survive TLC string output)
def _node(k, s=(), xs=(), lo=0, hi=0, long=0):
    return {"k": k, "s": list(s), "xs": list(xs), "lo": lo, "hi": hi, "long": long}


def parse_body(toks, plan=None, long=20):
    """tokens of one rule body -> tree (dict) or None when it uses something the tree language does not cover.

    plan: representatives per character-class occurrence (list of lists of characters); default class_reps."""
    pos = [0]
    ncls = [0]

    def alt():
        branches = [seq()]
        while pos[0] < len(toks) and toks[pos[0]]["t"] == "PIPE":
            pos[0] += 1
            branches.append(seq())
        return branches[0] if len(branches) == 1 else _node("alt", xs=branches)

    def seq():
        items = []
        while pos[0] < len(toks) and toks[pos[0]]["t"] not in ("PIPE", "RP"):
            items.append(item())
        return _node("seq", xs=items)

    def item():
        t = toks[pos[0]]
        pos[0] += 1
        if t["t"] == "LIT":
            node = _node("lit", s=[ord(c) for c in unescape(t["v"])])
        elif t["t"] == "CLASS":
            reps = plan[ncls[0]] if plan is not None and ncls[0] < len(plan) else class_reps(t["v"])
            ncls[0] += 1
            node = _node("cls", s=[ord(c) for c in reps])
        elif t["t"] == "LP":
            node = alt()
            if pos[0] >= len(toks) or toks[pos[0]]["t"] != "RP":
                raise ValueError("unbalanced")
            pos[0] += 1
        elif t["t"] == "NAME" and t["v"] == "ws":
            node = _node("lit")                                             # ws ::= [ \t\n]* : the empty derivation
        else:
            raise ValueError("unsupported token %s" % t["t"])
        while pos[0] < len(toks) and toks[pos[0]]["t"] in ("STAR", "PLUS", "QM", "REP"):
            q = toks[pos[0]]
            pos[0] += 1
            lg = 0
            if q["t"] == "STAR":
                lo, hi, lg = 0, 2, long
            elif q["t"] == "PLUS":
                lo, hi, lg = 1, 2, long
            elif q["t"] == "QM":
                lo, hi = 0, 1
            else:
                m = re.match(r"\{(\d+)(,(\d*))?\}", q["v"])
                lo = int(m.group(1))
                if m.group(2) is None:
                    hi = lo
                elif m.group(3):
                    hi = int(m.group(3))
                else:
                    hi, lg = lo + 1, max(long, lo + 2)
                hi = min(hi, lo + 2)
            node = _node("rep", xs=[node], lo=lo, hi=hi, long=lg)
        return node

    try:
        tree = alt()
        if pos[0] != len(toks):
            return None
        return tree
    except (ValueError, IndexError):
        return None


_UNESC = {"n": "\n", "t": "\t", "r": "\r", "\\": "\\", '"': '"', "[": "[", "]": "]"}


def unescape(s):
    out, i = [], 0
    while i < len(s):
        if s[i] == "\\" and i + 1 < len(s):
            c = s[i + 1]
            if c == "x" and i + 3 < len(s):
                out.append(chr(int(s[i + 2:i + 4], 16)))
                i += 4
                continue
            out.append(_UNESC.get(c, c))
            i += 2
        else:
            out.append(s[i])
            i += 1
    return "".join(out)


def class_reps(body):
    """boundary representatives of a character class"""
    if body.startswith("^"):
        return ["x", "7"]
    reps = []
    i = 0
    while i < len(body):
        if i + 2 < len(body) and body[i + 1] == "-":
            a, b = body[i], body[i + 2]
            if a == "0" and b == "9":
                reps += ["0", "1", "2", "9"]
            else:
                reps += [a, b]
            i += 3
        else:
            reps.append(unescape(body[i:i + 2]) if body[i] == "\\" else body[i])
            i += 1 if body[i] != "\\" else 2
    return reps or ["x"]


# sampling plans for the digit positions of date-shaped rules: (rich representatives, default) per [0-9] occurrence
_DATE = [("2", "2"), ("0", "0"), ("2", "2"), ("34", "4"), ("01", "0"), ("01239", "1"), ("023", "1"), ("019", "5")]
_TIME = [("02", "1"), ("034", "0"), ("056", "3"), ("09", "0"), ("056", "0"), ("09", "0")]
_ZONE = [("012", "0"), ("049", "5"), ("056", "3"), ("09", "0")]


def plans(toks):
    """sampling plans (representatives per class occurrence) for one rule body: [None] = the generic representatives;
    date-shaped rules (8 or 18 digit classes) get boundary plans: calendar boundaries for the date part, then the time
    part, then the zone part, the other parts held at a valid default"""
    classes = [t["v"] for t in toks if t["t"] == "CLASS"]
    if not classes or any(c != "0-9" for c in classes) or len(classes) not in (8, 18):
        return [None]
    if len(classes) == 8:
        return [[list(r) for r, _ in _DATE]]
    parts = [_DATE, _TIME, _ZONE]
    out = []
    for focus in range(3):
        pl = []
        for k, part in enumerate(parts):
            pl += [list(r) if k == focus else [d] for r, d in part]
        out.append(pl)
    return out


def lang_size(n):
    if n["k"] == "lit":
        return 1
    if n["k"] == "cls":
        return len(n["s"])
    if n["k"] == "seq":
        r = 1
        for x in n["xs"]:
            r *= lang_size(x)
        return r
    if n["k"] == "alt":
        return sum(lang_size(x) for x in n["xs"])
    s = lang_size(n["xs"][0])
    return sum(s ** m for m in range(n["lo"], n["hi"] + 1)) + (s if n["long"] else 0)


def shrink(tree, cap):
    """reduce class representatives (last classes first) until the language has at most cap strings"""
    classes = []

    def walk(n):
        if n["k"] == "cls":
            classes.append(n)
        for x in n["xs"]:
            walk(x)
    walk(tree)
    k = len(classes) - 1
    while lang_size(tree) > cap and any(len(c["s"]) > 1 for c in classes):
        while k >= 0 and len(classes[k]["s"]) <= 1:
            k -= 1
        if k < 0:
            k = len(classes) - 1
            continue
        classes[k]["s"] = classes[k]["s"][:-1] if len(classes[k]["s"]) > 2 else classes[k]["s"][1:2]
        k -= 1
        if k < 0:
            k = len(classes) - 1
    return tree


def field_rules(grammar):
    """{field rule name: tokens of its body after the  "NAME" "::" ws  prefix}"""
    toks = tokens(grammar)
    rules, cur, name = {}, None, None
    i = 0
    while i < len(toks):
        t = toks[i]
        if t["t"] == "NAME" and i + 1 < len(toks) and toks[i + 1]["t"] == "DEF":
            name, cur = t["v"], []
            rules[name] = cur
            i += 2
            continue
        if t["t"] == "NL":
            name, cur = None, None
        elif cur is not None:
            cur.append(t)
        i += 1
    return rules


def cleanup():
    import shutil
    base = os.environ.get("VERIF_SCRATCH", "/var/tmp")
    for n in os.listdir(base):
        if n.startswith("gbnf."):
            shutil.rmtree(os.path.join(base, n), ignore_errors=True)
