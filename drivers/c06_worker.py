"""C06 worker: one real process life.  Reads a job from stdin
    {"root": dir, "order": [call ids], "mode": "seq"|"gather"|"threads", "batch": n}
serves the calls in that order on long-lived tool instances (as the MCP server keeps them) and prints one JSON line per served
call: {"call", "pos", "result"} where result is the normalised outcome (scratch root and timestamps masked).

The process configuration (PYTHONHASHSEED, working directory, LANG / LC_ALL) is set by the parent before the interpreter starts.
"""
from __future__ import annotations

import asyncio
import glob
import hashlib
import json
import os
import re
import sys

# ------------------------------------------------------------------ documents
D = {}
D["clean"] = '===DOC===\nMETA:\n  TYPE::"TEST"\n  VERSION::"1.0"\nSTATUS::ACTIVE\nITEMS::[a,b,c]\nBLOCK:\n  K::1\n  DEEP:\n    X::"two words"\n===END===\n'
D["lenient"] = ('===DOC===\nMETA:\n  TYPE :: "TEST"\n  VERSION::"1.0"\nFLOW::A -> B -> C\nFLAG::True\nWORDS::several bare words here\n'
                'DUP::1\nDUP::2\nTENSION::Speed <-> Quality\nLIST::[a, b,\n  c]\nBLOCK:\n\tTABBED::1\n')
D["sections"] = ('---\ntitle: front\n---\n===DOC===\nMETA:\n  TYPE::"TEST"\n  VERSION::"1.0"\n// a comment\n§1::FIRST\n  A::1 // trailing\n  B::[x,y]\n§2::SECOND[note]\n  Z::\n```python\nprint("hi")\n```\n'
                 '  MAP::[k::v,k2::v2]\n  FLOW::A→B→C\n===END===\n')
D["meta_ambiguous"] = '===DOC===\nMETA:\n  TYPE::"TEST"\n  VERSION::"1.0"\n  STATUS::D\nA::1\n===END===\n'
D["meta_invalid"] = '===DOC===\nMETA:\n  TYPE::"TEST"\n  STATUS::NONSENSE\n  EXTRA1::1\n  EXTRA2::2\nA::1\n===END===\n'
D["unparseable"] = "===DOC===\nA::[1,2\nB::(\n"
D["empty"] = ""
D["debate_ok"] = ('===DOC===\nMETA:\n  TYPE::"TEST"\n  VERSION::"1.0"\nDEBATE_TRANSCRIPT:\n  THREAD_ID::"t-1"\n  TOPIC::"x"\n  MODE::fixed\n  STATUS::active\n'
                  '  PARTICIPANTS::[Wind,Wall]\n  TURNS::[t1,t2]\n===END===\n')
D["debate_bad"] = ('===DOC===\nMETA:\n  TYPE::"TEST"\n  VERSION::"1.0"\nDEBATE_TRANSCRIPT:\n  THREAD_ID::"t-1"\n  MODE::sideways\n  STATUS::a\n'
                   '  ZED::1\n  ALPHA::2\n  MIDDLE::3\n  PARTICIPANTS::Wind\n===END===\n')
D["gen_ok"] = '===DOC===\nMETA:\n  TYPE::"TEST"\n  VERSION::"1.0"\nGEN_S:\n  NAME::"a name"\n  LEVEL::high\n  COUNT::3\n===END===\n'
D["gen_bad"] = ('===DOC===\nMETA:\n  TYPE::"TEST"\n  VERSION::"1.0"\nGEN_S:\n  LEVEL::h\n  COUNT::"7"\n  name::"wrong case"\n  U3::1\n  U1::2\n  U2::3\n  LEVEL::LOW\n===END===\n')
D["gen_prefix"] = '===DOC===\nMETA:\n  TYPE::"TEST"\n  VERSION::"1.0"\nGEN_S:\n  NAME::"n"\n  LEVEL::l\n  MODE::A\n===END===\n'

GEN_S = ('===GEN_S===\nMETA:\n  TYPE::PROTOCOL_DEFINITION\n  VERSION::"1.0"\n\nPOLICY:\n  VERSION::"1.0"\n  UNKNOWN_FIELDS::REJECT\n  TARGETS::[§INDEXER,§SELF]\n\n'
         'FIELDS:\n  NAME::["example"∧REQ∧TYPE[STRING]→§INDEXER]\n  LEVEL::["low"∧OPT∧ENUM[low,lower,high,higher]→§SELF]\n'
         '  COUNT::[1∧OPT∧TYPE[NUMBER]∧RANGE[1,10]→§INDEXER]\n  MODE::["ACTIVE"∧OPT∧ENUM[ACTIVE,ACTION,ARCHIVED]→§SELF]\n'
         '  A-B::["x"∧OPT→§SELF]\n  A_B::["x"∧OPT→§SELF]\n  CONTENT::["x"∧OPT∧REGEX["^[a-z]+$"]→§SELF]\n'
         '  OUTDIR::["out"∧OPT∧DIR→§SELF]\n  SRCDIR::["src"∧OPT∧DIR→§SELF]\n  CFG::["c"∧OPT∧DIR→§SELF]\n===END===\n')
# path-valued fields whose text mentions the names of the working directories of the lives (cwdA, cwdB): a path is text, not a place
D["gen_paths"] = ('===DOC===\nMETA:\n  TYPE::"TEST"\n  VERSION::"1.0"\nGEN_S:\n  NAME::"n"\n  OUTDIR::"../cwdA/out"\n  SRCDIR::"../cwdB/src/../lib"\n  CFG::"../../x"\n===END===\n')
GEN_W = GEN_S.replace("GEN_S", "GEN_W").replace("UNKNOWN_FIELDS::REJECT", "UNKNOWN_FIELDS::WARN")
GEN_T = ('===GEN_T===\nMETA:\n  TYPE::PROTOCOL_DEFINITION\n  VERSION::"1.0"\n\nFIELDS:\n  Status::["x"∧REQ∧CONST[abc]→§SELF]\n  STATUS::["x"∧OPT∧DATE→§SELF]\n'
         '  A.B::["x"∧OPT∧ISO8601→§SELF]\n  A_B::["x"∧OPT∧TYPE[BOOLEAN]→§SELF]\n===END===\n')
# values that compare equal in Python but are written differently
D["zero_pos"] = '===DOC===\nMETA:\n  TYPE::"TEST"\n  VERSION::"1.0"\nA::0.0\nB::[0.0,1,"1"]\n===END===\n'
D["zero_neg"] = '===DOC===\nMETA:\n  TYPE::"TEST"\n  VERSION::"1.0"\nA::-0.0\nB::[-0.0,1.0,true]\nC::0\nD::false\n===END===\n'
D["ones"] = '===DOC===\nMETA:\n  TYPE::"TEST"\n  VERSION::"1.0"\nA::1\nB::1.0\nC::true\nD::"1"\nE::"true"\nF::"1.0"\n===END===\n'
# the same envelope name and VERSION as GEN_S, other fields
GEN_S_OTHER = ('===GEN_S===\nMETA:\n  TYPE::PROTOCOL_DEFINITION\n  VERSION::"1.0"\n\nFIELDS:\n  TITLE::["x"∧REQ∧ENUM[1,2,3]→§SELF]\n  REVISION::["x"∧OPT∧CONST[1]→§SELF]\n===END===\n')
D["schema_gen_s_other"] = GEN_S_OTHER
D["schema_gen_s"] = GEN_S
D["schema_gen_t"] = GEN_T
D["contract"] = ('===SELFDESC===\nMETA:\n  TYPE::SELFDESC\n  VERSION::"1.0"\n  CONTRACT::[\n    FIELD[STATUS]::REQ∧ENUM[ACTIVE,PAUSED],\n    FIELD[Status]::OPT∧CONST[x],\n'
                 '    FIELD[A-B]::OPT∧TYPE[NUMBER]\n  ]\n---\nSTATUS::ACTIVE\n===END===\n')
CHANGES = {"STATUS": "DONE", "NEWKEY": ["x", "y"], "ITEMS": {"$op": "DELETE"}, "META.VERSION": "2.0"}


def packaged():
    import octave_mcp
    root = os.path.dirname(octave_mcp.__file__)
    fs = sorted(glob.glob(os.path.join(root, "resources", "specs", "*.oct.md")) + glob.glob(os.path.join(root, "resources", "primers", "*.oct.md"))
                + glob.glob(os.path.join(root, "schemas", "builtin", "*.oct.md")))
    fs.sort(key=lambda p: (os.path.getsize(p), p))
    pick = fs[:2] + fs[len(fs) // 2:len(fs) // 2 + 1] + fs[-1:]
    return {"pkg%d" % k: p for k, p in enumerate(pick)}


def doc_text(did):
    if did in D:
        return D[did]
    with open(packaged()[did], encoding="utf-8") as f:
        return f.read()


DOCS = ["clean", "lenient", "sections", "meta_ambiguous", "meta_invalid", "unparseable", "debate_ok", "debate_bad", "gen_ok", "gen_bad", "gen_prefix",
        "contract", "pkg0", "pkg1", "pkg2", "pkg3", "zero_pos", "zero_neg", "ones"]


def all_calls(level="quick"):
    """ordered list of call ids"""
    c = []
    for d in DOCS:
        c.append("api:lenient:%s" % d)
    for d in ("clean", "lenient", "sections", "unparseable", "pkg2"):
        c.append("api:strict:%s" % d)
    for d in ("clean", "sections", "pkg1", "zero_neg", "zero_pos"):
        c.append("api:seal:%s" % d)
    for d in ("schema_gen_s", "schema_gen_t"):
        c.append("api:grammar:%s" % d)
    c.append("api:contract_grammar:contract")
    for d in ("clean", "meta_ambiguous", "meta_invalid", "lenient", "unparseable", "sections", "pkg3", "zero_pos", "zero_neg", "ones"):
        c.append("validate:META:%s:-" % d)
    c += ["validate:META:lenient:fix", "validate:META:meta_invalid:compact", "validate:META:meta_invalid:hint", "validate:META:meta_invalid:diff",
          "validate:META:meta_ambiguous:strictprofile", "validate:SKILL:pkg0:-"]
    for d in ("debate_ok", "debate_bad"):
        c += ["validate:DEBATE_TRANSCRIPT:%s:-" % d, "validate:DEBATE_TRANSCRIPT:%s:fix" % d]
    for d in ("gen_ok", "gen_bad", "gen_prefix"):
        c += ["validate:GEN_S:%s:-" % d, "validate:GEN_S:%s:fix" % d, "validate:GEN_W:%s:-" % d]
    c += ["validate:GEN_S:gen_bad:hint", "validate:NO_SUCH:clean:-", "validate:GEN_S:gen_paths:-", "validate:GEN_W:gen_paths:-", "write:GEN_S:gen_paths:-"]
    for d in ("clean", "lenient", "sections", "unparseable", "meta_invalid"):
        c.append("write:-:%s:-" % d)
    c += ["write:-:lenient:lenient", "write:META:meta_invalid:-", "write:GEN_S:gen_bad:lenient", "write:GEN_S:gen_bad:hint", "write:GEN_S:gen_ok:-",
          "write:-:clean:changes", "write:-:clean:corrections_only", "write:DEBATE_TRANSCRIPT:debate_bad:lenient"]
    for d in ("clean", "sections", "lenient", "pkg2"):
        for fmt in ("octave", "json", "yaml", "markdown"):
            c.append("eject:%s:canonical:%s" % (d, fmt))
    c += ["eject:sections:executive:octave", "eject:sections:developer:octave", "eject:pkg3:authoring:octave", "eject:schema_gen_s:canonical:gbnf",
          "eject:contract:canonical:gbnf", "eject:clean:template:octave"]
    c += ["grammar:schema:GEN_S:gbnf", "grammar:schema:GEN_W:gbnf", "grammar:schema:META:gbnf", "grammar:schema:DEBATE_TRANSCRIPT:gbnf", "grammar:schema:GEN_S:json_schema",
          "grammar:content:schema_gen_s:gbnf", "grammar:content:schema_gen_s_other:gbnf", "grammar:content:schema_gen_s_other:json_schema", "grammar:content:schema_gen_t:gbnf", "grammar:content:contract:gbnf", "grammar:content:schema_gen_t:json_schema"]
    c += ["cli:normalize:lenient", "cli:normalize:sections", "cli:validate:META:meta_invalid", "cli:validate:GEN_S:gen_bad", "cli:eject:sections:json",
          "cli:eject:clean:markdown", "cli:seal:clean", "cli:write:lenient", "cli:validatefix:DEBATE_TRANSCRIPT:debate_bad"]
    return c


GRAMMAR_CALLS = ["grammar:schema:GEN_S:gbnf", "grammar:content:schema_gen_s_other:gbnf", "grammar:content:contract:gbnf", "grammar:content:schema_gen_s:gbnf", "grammar:schema:GEN_W:gbnf"]
VALIDATE_CALLS = ["validate:META:zero_pos:-", "validate:META:zero_neg:-", "validate:GEN_S:gen_bad:-", "validate:META:ones:-", "write:GEN_S:gen_bad:lenient"]


# ------------------------------------------------------------------ execution
TOOLS = {}


def tools():
    if not TOOLS:
        from octave_mcp.mcp.compile_grammar import CompileGrammarTool
        from octave_mcp.mcp.eject import EjectTool
        from octave_mcp.mcp.validate import ValidateTool
        from octave_mcp.mcp.write import WriteTool
        TOOLS.update(validate=ValidateTool(), write=WriteTool(), eject=EjectTool(), grammar=CompileGrammarTool())
    return TOOLS


def _safe(cid):
    return re.sub(r"[^A-Za-z0-9]+", "_", cid)


async def acall(cid, root, slot):
    """serve one call; returns a JSON-serialisable outcome"""
    p = cid.split(":")
    kind = p[0]
    try:
        if kind == "api":
            return api_call(p, root)
        if kind == "cli":
            return cli_call(p, root, slot)
        t = tools()
        if kind == "validate":
            kw = {"content": doc_text(p[2]), "schema": p[1]}
            f = p[3]
            if f == "fix":
                kw["fix"] = True
            elif f == "compact":
                kw["compact"] = True
            elif f == "hint":
                kw["grammar_hint"] = True
            elif f == "diff":
                kw["diff_only"] = True
            elif f == "strictprofile":
                kw["profile"] = "STRICT"
            return await t["validate"].execute(**kw)
        if kind == "write":
            target = os.path.join(root, "out", "%s.%s.oct.md" % (_safe(cid), slot))
            if os.path.exists(target):
                os.unlink(target)
            kw = {"target_path": target}
            if p[1] != "-":
                kw["schema"] = p[1]
            f = p[3]
            if f == "changes":
                with open(target, "w", encoding="utf-8") as fh:
                    fh.write(doc_text(p[2]))
                kw["changes"] = CHANGES
            else:
                kw["content"] = doc_text(p[2])
            if f == "lenient":
                kw["lenient"] = True
            elif f == "hint":
                kw["grammar_hint"] = True
            elif f == "corrections_only":
                kw["corrections_only"] = True
            r = normalise(await t["write"].execute(**kw), target, "<TARGET>")
            out = {"envelope": r}
            if os.path.exists(target):
                with open(target, "rb") as fh:
                    data = fh.read()
                out["file_sha256"] = hashlib.sha256(data).hexdigest()
                out["file_text"] = data.decode("utf-8", "replace")
                os.unlink(target)
            return out
        if kind == "eject":
            return await t["eject"].execute(content=doc_text(p[1]), schema="META", mode=p[2], format=p[3])
        if kind == "grammar":
            if p[1] == "schema":
                return await t["grammar"].execute(schema=p[2], format=p[3])
            return await t["grammar"].execute(content=doc_text(p[2]), format=p[3])
        return {"harness": "unknown call"}
    except Exception as e:                       # C20 judges raising; here the outcome just has to be the same everywhere
        return {"raised": type(e).__name__, "message": str(e)}


def api_call(p, root):
    from octave_mcp.core.emitter import emit
    from octave_mcp.core.parser import parse, parse_with_warnings
    text = doc_text(p[2])
    if p[1] == "lenient":
        doc, warnings = parse_with_warnings(text)
        return {"canonical": emit(doc), "warnings": warnings}
    if p[1] == "strict":
        return {"canonical": emit(parse(text))}
    if p[1] == "seal":
        from octave_mcp.core.sealer import extract_seal, seal_document, verify_seal
        sealed = seal_document(parse(text))
        return {"canonical": emit(sealed), "seal": extract_seal(sealed), "verify": verify_seal(sealed).status.value}
    if p[1] == "grammar":
        from octave_mcp.core.gbnf_compiler import GBNFCompiler
        from octave_mcp.core.schema_extractor import extract_schema_from_document
        sd = extract_schema_from_document(parse(text))
        return {"plain": GBNFCompiler().compile_schema(sd), "envelope": GBNFCompiler().compile_schema(sd, include_envelope=True)}
    if p[1] == "contract_grammar":
        from octave_mcp.core.gbnf_compiler import compile_gbnf_from_meta
        return {"grammar": compile_gbnf_from_meta(parse(text).meta)}
    return {"harness": "unknown api call"}


def cli_call(p, root, slot):
    from click.testing import CliRunner
    from octave_mcp.cli.main import cli
    sub = p[1]
    did = p[-1] if sub not in ("eject",) else p[2]
    fp = os.path.join(root, "out", "in_%s.%s.oct.md" % (_safe(":".join(p)), slot))
    op = fp + ".out"
    for x in (fp, op):
        if os.path.exists(x):
            os.unlink(x)
    if sub != "write":
        with open(fp, "w", encoding="utf-8") as fh:
            fh.write(doc_text(did))
    if sub == "normalize":
        args = ["normalize", fp]
    elif sub == "validate":
        args = ["validate", fp, "--schema", p[2]]
    elif sub == "validatefix":
        args = ["validate", fp, "--schema", p[2], "--fix"]
    elif sub == "eject":
        args = ["eject", fp, "--format", p[3]]
    elif sub == "seal":
        args = ["seal", fp, "-o", op]
    else:
        args = ["write", fp, "--content", doc_text(did), "--lenient"]
    r = CliRunner().invoke(cli, args, catch_exceptions=True)
    out = {"exit": r.exit_code, "output": r.output.replace(op, "<OUT>").replace(fp, "<FILE>"), "exception": type(r.exception).__name__ if r.exception is not None and not isinstance(r.exception, SystemExit) else ""}
    for x in (op, fp):
        if os.path.exists(x):
            if sub in ("seal", "write"):
                with open(x, "rb") as fh:
                    out["file_" + ("out" if x == op else "target")] = fh.read().decode("utf-8", "replace")
            os.unlink(x)
    return out


# ------------------------------------------------------------------ normalisation
def normalise(x, root, mask="<ROOT>"):
    """mask the scratch root (or a target path) and routing timestamps; everything else is compared byte for byte"""
    if isinstance(x, dict):
        return {str(k): ("<TIMESTAMP>" if k == "timestamp" and isinstance(v, str) else normalise(v, root, mask)) for k, v in x.items()}
    if isinstance(x, (list, tuple)):
        return [normalise(v, root, mask) for v in x]
    if isinstance(x, str):
        return x.replace(root, mask)
    if isinstance(x, (int, float, bool)) or x is None:
        return x
    return {"<non-json>": type(x).__name__, "repr": repr(x).replace(root, mask)}


def parts_of(result):
    """[(part name, canonical JSON text)] : one part per top-level key (two levels for the write envelope)"""
    out = []
    if isinstance(result, dict):
        for k, v in result.items():
            if k == "envelope" and isinstance(v, dict):
                for k2, v2 in v.items():
                    out.append(("envelope." + k2, json.dumps(v2, ensure_ascii=True)))
                out.append(("envelope#keys", json.dumps(list(v.keys()))))
            else:
                out.append((k, json.dumps(v, ensure_ascii=True)))
        out.append(("#keys", json.dumps(list(result.keys()))))
    else:
        out.append(("#value", json.dumps(result, ensure_ascii=True)))
    return out


def main():
    job = json.load(sys.stdin)
    root, order, mode, batch = job["root"], job["order"], job["mode"], job.get("batch", 4)
    os.makedirs(os.path.join(root, "out"), exist_ok=True)
    # what a serving process has done before its first call: the server module imports every tool module and creates the tools
    import octave_mcp.cli.main  # noqa: F401
    import octave_mcp.mcp.server  # noqa: F401
    tools()
    loop = asyncio.new_event_loop()
    results = [None] * len(order)
    if mode == "seq":
        for k, cid in enumerate(order):
            results[k] = loop.run_until_complete(acall(cid, root, "s"))
    else:
        k = 0
        while k < len(order):
            chunk = list(range(k, min(len(order), k + batch)))
            k += batch
            inside = [j for j in chunk if not order[j].startswith("cli:")]        # CliRunner swaps sys.stdout: not a concurrent entry point
            if mode == "gather":
                async def many(js):
                    return await asyncio.gather(*[acall(order[j], root, "g%d" % j) for j in js])
                for j, r in zip(inside, loop.run_until_complete(many(inside))):
                    results[j] = r
            else:
                from concurrent.futures import ThreadPoolExecutor

                def one(j):
                    lp = asyncio.new_event_loop()
                    try:
                        return lp.run_until_complete(acall(order[j], root, "t%d" % j))
                    finally:
                        lp.close()
                with ThreadPoolExecutor(max_workers=batch) as ex:
                    for j, r in zip(inside, ex.map(one, inside)):
                        results[j] = r
            for j in chunk:
                if j not in inside:
                    results[j] = loop.run_until_complete(acall(order[j], root, "c"))
    out = sys.stdout
    for k, cid in enumerate(order):
        res = normalise(results[k], root)
        out.write(json.dumps({"call": cid, "pos": k, "parts": parts_of(res)}, ensure_ascii=True) + "\n")
    out.flush()


if __name__ == "__main__":
    main()
