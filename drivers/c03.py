"""C03 - see drivers/docs.py and spec/Trace_Docs.tla."""
from drivers import docs

MATCHERS = {}


def run(ctx):
    return docs.run(ctx, "C03", matchers=MATCHERS)
