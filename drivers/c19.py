"""C19 - tools cannot be steered outside the intended files.

model run : spec/PathGuard.tla enumerates every path / source URI of up to MaxSeg segment kinds over one layout with
            symlinks (to a directory outside, to a directory inside, to a file outside, dangling) and a secret outside the
            sandbox root; spec/NameSpace.tla enumerates schema-name strings; a small pool of frozen references
replay    : each path goes to octave_write (content, changes, normalize, each also as corrections_only), octave_validate
            (file_path) and `octave write`; every open/create/replace is recorded by interposition and classified by its
            RESOLVED location; the whole tree (sandbox + outside) is snapshotted before and after
validation: spec/Trace_PathGuard.tla recomputes MustRefuse and judges RefusedEarly / Confined; spec/Trace_NameSpace.tla
            judges schema names and frozen references
"""
from __future__ import annotations

import hashlib
import json
import os
import shutil
import tempfile

from mbt import engine
from drivers import common as _common
from drivers import fsio
from drivers.common import atoms_text, run_async

SECRET = "===SECRET===\nPASSWORD::hunter2_TOPSECRET_MARKER\n===END===\n"
DOC = "===DOC===\nA::1\n===END===\n"
NEW = "===DOC===\nA::2\nB::x\n===END===\n"

_lay = {}


def build_layout():
    base = tempfile.mkdtemp(prefix="c19.", dir=os.environ.get("VERIF_SCRATCH", "/var/tmp"))
    root = os.path.join(base, "root")
    out = os.path.join(base, "out")

    def fill(d, depth, outside=False):
        os.makedirs(d, exist_ok=True)
        with open(os.path.join(d, "f.oct.md"), "w") as f:
            f.write(SECRET if outside else DOC)
        if outside:
            with open(os.path.join(d, "secret.oct.md"), "w") as f:
                f.write(SECRET)
            with open(os.path.join(d, "n.oct.md"), "w") as f:      # so that a write through a link would REPLACE something
                f.write(SECRET)
        else:
            os.symlink(os.path.relpath(out, d), os.path.join(d, "ld"))
            os.symlink("d" if depth < 2 else ".", os.path.join(d, "ldi"))
            os.symlink(os.path.join(os.path.relpath(out, d), "secret.oct.md"), os.path.join(d, "lf.oct.md"))
            os.symlink("missing-target.oct.md", os.path.join(d, "dl.oct.md"))
        if depth < 2:
            fill(os.path.join(d, "d"), depth + 1, outside)

    fill(root, 0)
    fill(out, 0, outside=True)
    priv = os.path.join(base, "root-private")
    os.makedirs(priv)
    with open(os.path.join(priv, "f.oct.md"), "w") as f:
        f.write(SECRET)
    with open(os.path.join(priv, "n.oct.md"), "w") as f:
        f.write(SECRET)
    return base, root, out


def snapshot(base):
    out = {}
    for dp, dn, fn in os.walk(base):
        for n in dn + fn:
            p = os.path.join(dp, n)
            st = os.lstat(p)
            rel = os.path.relpath(p, base)
            if os.path.islink(p):
                out[rel] = ("l", os.readlink(p))
            elif os.path.isdir(p):
                out[rel] = ("d",)
            else:
                with open(p, "rb") as f:
                    out[rel] = ("f", hashlib.sha256(f.read()).hexdigest(), st.st_mode & 0o777)
    return out


SEG = {"d": "d", "nd": "nodir", ".": ".", "..": "..", "ld": "ld", "ldi": "ldi", "empty": "", "f.oct.md": "f.oct.md",
       "n.oct.md": "n.oct.md", "n.md": "n.md", "n.octave": "n.octave", "n.txt": "n.txt", "n.OCT.MD": "n.OCT.MD",
       "n.tar.md": "n.tar.md", "n.oct.md.bak": "n.oct.md.bak", "noext": "noext", "lf.oct.md": "lf.oct.md",
       "dl.oct.md": "dl.oct.md", "nul.oct.md": "nu\x00l.oct.md", "long.oct.md": "L" * 300 + ".oct.md",
       "root-private": "root-private", "root": "root"}

CONTENT_OPS = {"open_r", "open_w", "open_a", "mkstemp", "mkdir", "rename", "unlink", "chmod", "truncate", "link", "rmdir"}


def _layout():
    if not _lay:
        base, root, out = build_layout()
        _lay.update(base=base, root=root, out=out, snap=snapshot(base))
    return _lay


def _reset_if_changed():
    L = _layout()
    now = snapshot(L["base"])
    if now != L["snap"]:
        shutil.rmtree(L["base"], ignore_errors=True)
        _lay.clear()
        _layout()
        return True, now
    return False, now


def _observe(route, fn, allow=()):
    """Run fn() under interposition; classify what it touched by resolved location.  allow: files the call is asked to READ (the
    source of an -o command): touching them is not being steered anywhere."""
    L = _layout()
    base, root, out = L["base"], L["root"], L["out"]
    before = L["snap"]
    rec = fsio.Recorder(base, lambda path: path)
    un = fsio.install(rec)
    real_root = os.path.realpath(root)
    touched = []
    try:
        try:
            refused, reply = fn()
        except Exception as e:  # a raise is a refusal for this property (C20 judges raising)
            refused, reply = True, "raised:" + type(e).__name__
    finally:
        un()
    outside = 0
    ntouch = 0
    for e in rec.events:
        if e["op"] in CONTENT_OPS and e["res"] == "ok":
            if e["path"] in allow and e["path2"] in ("-", "tmp?"):
                continue
            ntouch += 1
            for pth in (e["path"], e["path2"]):
                if pth in ("-", "tmp?"):
                    continue
                rp = os.path.realpath(pth)
                if not (rp == real_root or rp.startswith(real_root + os.sep)):
                    outside += 1
    changed, now = _reset_if_changed()
    diff = {k for k in set(before) | set(now) if before.get(k) != now.get(k)}
    outside_changed = any(not (k == "root" or k.startswith("root" + os.sep)) for k in diff)
    return {"route": route, "refused": bool(refused), "touched": ntouch, "outside": outside, "changed": bool(diff),
            "outside_changed": outside_changed, "leak": "TOPSECRET_MARKER" in json.dumps(reply, default=str)}


def replay_path(item):
    i, case = item
    from click.testing import CliRunner
    from octave_mcp.cli.main import cli
    from octave_mcp.mcp.validate import ValidateTool
    from octave_mcp.mcp.write import WriteTool

    L = _layout()
    os.chdir(L["root"])
    rel = "/".join(SEG[k] for k in case["segs"])
    path = os.path.join(L["root"], rel) if case["abs"] else rel
    w, v = _common.tool("write"), _common.tool("validate")

    def tool(**kw):
        def f():
            r = run_async(w.execute(target_path=path, **kw))
            return r.get("status") != "success", r
        return f

    def val():
        r = run_async(v.execute(file_path=path, schema="META"))
        return r.get("status") != "success", r

    def cliw():
        r = CliRunner().invoke(cli, ["write", path, "--content", NEW], catch_exceptions=True)
        return r.exit_code != 0, r.output

    def clin():
        r = CliRunner().invoke(cli, ["normalize", os.path.join(L["root"], "f.oct.md"), "-o", path], catch_exceptions=True)
        return r.exit_code != 0, r.output

    def clis():
        r = CliRunner().invoke(cli, ["seal", os.path.join(L["root"], "f.oct.md"), "-o", path], catch_exceptions=True)
        return r.exit_code != 0, r.output

    obs = [_observe("write_content", tool(content=NEW)),
           _observe("write_content_dry", tool(content=NEW, corrections_only=True)),
           _observe("write_changes", tool(changes={"A": 5})),
           _observe("write_changes_dry", tool(changes={"A": 5}, corrections_only=True)),
           _observe("write_normalize", tool()),
           _observe("write_normalize_dry", tool(corrections_only=True)),
           _observe("validate_file", val),
           _observe("cli_write", cliw),
           _observe("cli_normalize_o", clin, allow=(os.path.join(L["root"], "f.oct.md"),)),
           _observe("cli_seal_o", clis, allow=(os.path.join(L["root"], "f.oct.md"),))]
    return {"i": i, "space": "paths", "case": case, "obs": obs, "path": path}


def replay_uri(item):
    i, case = item
    from pathlib import Path
    from octave_mcp.core.hydrator import validate_source_uri

    L = _layout()
    os.chdir(L["root"])
    uri = "/".join(SEG[k] for k in case["segs"])
    basep = Path(L["root"])
    rec = fsio.Recorder(L["base"], lambda p: p)
    un = fsio.install(rec)
    returned_outside = False
    try:
        try:
            res = validate_source_uri(uri, basep)
            rp = os.path.realpath(str(res))
            rr = os.path.realpath(L["root"])
            returned_outside = not (rp == rr or rp.startswith(rr + os.sep))
        except Exception:
            res = None
    finally:
        un()
    outside = 0
    rr = os.path.realpath(L["root"])
    for e in rec.events:
        if e["op"] in CONTENT_OPS and e["res"] == "ok" and e["path"] not in ("-", "tmp?"):
            rp = os.path.realpath(e["path"])
            if not (rp == rr or rp.startswith(rr + os.sep)):
                outside += 1
    return {"i": i, "space": "uris", "case": case,
            "obs": [{"route": "validate_source_uri", "returned_outside": returned_outside, "outside": outside}], "path": uri}


_names = {}


def _names_env():
    """cwd with specs/schemas (one real schema) and decoys that only a traversal could reach."""
    if not _names:
        d = tempfile.mkdtemp(prefix="c19n.", dir=os.environ.get("VERIF_SCRATCH", "/var/tmp"))
        sd = os.path.join(d, "specs", "schemas")
        os.makedirs(os.path.join(sd, "a"))
        schema = "===A===\nMETA:\n  TYPE::PROTOCOL_DEFINITION\n  VERSION::\"1.0\"\nFIELDS:\n  X::[\"x\"∧REQ→§SELF]\n===END===\n"
        for p in (os.path.join(sd, "a.oct.md"), os.path.join(sd, "a", "a.oct.md"), os.path.join(d, "specs", "a.oct.md"),
                  os.path.join(d, "a.oct.md"), os.path.join(sd, "a", "0.oct.md"), os.path.join(d, "specs", "0.oct.md")):
            with open(p, "w", encoding="utf-8") as f:
                f.write(schema)
        import octave_mcp.schemas.loader as ld
        pk = [os.path.realpath(str(x)) for x in (os.path.join(os.path.dirname(ld.__file__), "builtin"),
                                                  os.path.join(os.path.dirname(os.path.dirname(ld.__file__)), "resources", "specs", "schemas"))]
        # a second working directory: a project without schema directory of its own, two levels below a directory that is NOT the
        # project and has a specs/schemas with the same file names: only the packaged directories may answer from there
        sub = os.path.join(d, "elsewhere", "proj", "sub")
        os.makedirs(sub)
        up = os.path.join(d, "elsewhere", "specs", "schemas")
        os.makedirs(up)
        for n in ("a.oct.md", "0.oct.md", "meta.oct.md"):
            with open(os.path.join(up, n), "w", encoding="utf-8") as f:
                f.write(schema)
        _names.update(dir=d, sd=os.path.realpath(sd), pk=pk, sub=sub)
    return _names


_opened = []
_hook_on = [False]
_hook_installed = [False]


def _audit(event, args):
    if _hook_on[0] and event == "open" and args and isinstance(args[0], (str, bytes)):
        _opened.append(os.fsdecode(args[0]))


def replay_name(item):
    i, case = item
    import sys
    from octave_mcp.schemas.loader import load_schema_by_name
    from octave_mcp.mcp.validate import ValidateTool

    E = _names_env()
    os.chdir(E["dir"])
    if not _hook_installed[0]:
        sys.addaudithook(_audit)
        _hook_installed[0] = True
    name = atoms_text(case["name"])
    allowed = [E["sd"]] + E["pk"]

    def inside(p):
        rp = os.path.realpath(p)
        return any(os.path.dirname(rp) == a for a in allowed)

    obs = []
    for route in ("load_schema_by_name", "octave_validate", "load_schema_by_name@subdir", "octave_validate@subdir"):
        if route.endswith("@subdir"):
            os.chdir(E["sub"])
            allowed = E["pk"]
        del _opened[:]
        _hook_on[0] = True
        loaded = False
        try:
            if route.startswith("load_schema_by_name"):
                loaded = load_schema_by_name(name) is not None
            else:
                r = run_async(_common.tool("validate").execute(content=DOC, schema=name))
                loaded = r.get("validation_status") in ("VALIDATED", "INVALID")
        except Exception:
            loaded = False
        finally:
            _hook_on[0] = False
        files = [p for p in _opened if p.endswith(".oct.md") or E["dir"] in os.path.realpath(p)]
        elsewhere = [p for p in files if not inside(p)]
        obs.append({"route": route, "opened_elsewhere": len(elsewhere), "loaded": bool(loaded),
                    "loaded_from_schema_dir": bool(loaded) and bool(files) and all(inside(p) for p in files)})
    return {"i": i, "kind": "name", "case": case, "obs": obs}


def frozen_cases():
    from pathlib import Path
    from octave_mcp.core.hydrator import resolve_hermetic_standard

    d = tempfile.mkdtemp(prefix="c19f.", dir=os.environ.get("VERIF_SCRATCH", "/var/tmp"))
    cache = os.path.join(d, "cache")
    os.makedirs(cache)
    good = b"===STD===\nA::1\n===END===\n"
    dg = hashlib.sha256(good).hexdigest()
    with open(os.path.join(cache, dg[:16] + ".oct.md"), "wb") as f:
        f.write(good)
    other = b"===OTHER===\nA::2\n===END===\n"
    do = hashlib.sha256(other).hexdigest()
    wrong = do[:16] + dg[16:]                      # file name prefix of `other`, digest differs after 16 chars
    with open(os.path.join(cache, wrong[:16] + ".oct.md"), "wb") as f:
        f.write(other)
    with open(os.path.join(d, "evil.oct.md"), "wb") as f:
        f.write(good)
    refs = {"right": "frozen@sha256:" + dg, "right_upper": "frozen@sha256:" + dg.upper(), "wrong_content": "frozen@sha256:" + wrong,
            "no_file": "frozen@sha256:" + "0" * 64, "short": "frozen@sha256:" + dg[:16], "long": "frozen@sha256:" + dg + "00",
            "traversal": "frozen@sha256:../evil", "traversal_padded": "frozen@sha256:" + ("../evil" + "0" * 64)[:64],
            "slash": "frozen@sha256:" + dg[:8] + "/" + dg[9:], "nonhex": "frozen@sha256:" + "g" * 64, "empty": "frozen@sha256:",
            "latest_missing": "latest", "newline": "frozen@sha256:" + dg + "\n"}
    recs = []

    def tamper(keep_mtime):
        """same process, after the reference was resolved once: other bytes of the same length in the cache file"""
        fp = os.path.join(cache, dg[:16] + ".oct.md")
        st = os.stat(fp)
        with open(fp, "wb") as f:
            f.write(good.replace(b"A::1", b"A::9"))
        if keep_mtime:
            os.utime(fp, ns=(st.st_atime_ns, st.st_mtime_ns))

    # bytes that are "the same document" to a reader but not the pinned bytes: the digest binds bytes, not a normal form of them
    variants = {"equivalent_crlf": good.replace(b"\n", b"\r\n"), "equivalent_bom": b"\xef\xbb\xbf" + good, "equivalent_trailing_space": good.replace(b"A::1\n", b"A::1 \n"),
                "equivalent_no_final_newline": good[:-1], "equivalent_extra_final_newline": good + b"\n", "equivalent_cr_only": good.replace(b"\n", b"\r")}

    def variant(data):
        def f():
            with open(os.path.join(cache, dg[:16] + ".oct.md"), "wb") as fh:
                fh.write(data)
        return f

    items = list(refs.items()) + [(k, variant(v)) for k, v in variants.items()] + [("right_after_tamper_same_size_same_mtime", lambda: tamper(True)), ("right_after_tamper_same_size", lambda: tamper(False))]
    for k, ref in items:
        if callable(ref):
            with open(os.path.join(cache, dg[:16] + ".oct.md"), "wb") as f:      # restore, resolve once (a memo may now exist), tamper
                f.write(good)
            try:
                resolve_hermetic_standard(refs["right"], Path(cache))
            except Exception:
                pass
            ref()
            ref = refs["right"]
        try:
            p = resolve_hermetic_standard(ref, Path(cache))
            rp = os.path.realpath(str(p))
            with open(rp, "rb") as f:
                data = f.read()
            m = ref.split(":", 1)[1].strip().lower() if ":" in ref else ""
            recs.append({"route": k, "resolved": True, "digest_matches": hashlib.sha256(data).hexdigest() == m,
                         "in_cache": os.path.dirname(rp) == os.path.realpath(cache), "opened_elsewhere": 0})
        except Exception:
            recs.append({"route": k, "resolved": False, "digest_matches": False, "in_cache": False, "opened_elsewhere": 0})
    shutil.rmtree(d, ignore_errors=True)
    return recs


def staging_cases():
    """Predictable staging names beside the target are symlink bait: for every route that writes a file, the names it creates
    next to the target are observed twice; a name that repeats (and a pool of conventional ones) is planted as a link to a file
    OUTSIDE the sandbox before the route runs again - the outside file must keep its bytes and the target must not become a link."""
    from click.testing import CliRunner
    from octave_mcp.cli.main import cli
    from octave_mcp.core.file_ops import atomic_write_octave
    from octave_mcp.mcp.write import WriteTool
    base = tempfile.mkdtemp(prefix="c19s.", dir=os.environ.get("VERIF_SCRATCH", "/var/tmp"))
    outside = os.path.join(base, "outside")
    os.makedirs(outside)
    victim = os.path.join(outside, "victim.oct.md")
    src = os.path.join(base, "src.oct.md")
    with open(src, "w") as f:
        f.write(DOC)
    w = WriteTool()
    routes = {
        "write_content": lambda t: run_async(w.execute(target_path=t, content=NEW)),
        "write_changes": lambda t: run_async(w.execute(target_path=t, changes={"A": 5})),
        "write_normalize": lambda t: run_async(w.execute(target_path=t)),
        "api_atomic_write": lambda t: atomic_write_octave(t, NEW, None),
        "cli_write": lambda t: CliRunner().invoke(cli, ["write", t, "--content", NEW], catch_exceptions=True),
        "cli_write_changes": lambda t: CliRunner().invoke(cli, ["write", t, "--changes", '{"A": 5}'], catch_exceptions=True),
        "cli_normalize_o": lambda t: CliRunner().invoke(cli, ["normalize", src, "-o", t], catch_exceptions=True),
        "cli_seal_o": lambda t: CliRunner().invoke(cli, ["seal", src, "-o", t], catch_exceptions=True),
    }
    conventional = [".doc.oct.md.tmp", "doc.oct.md.tmp", "doc.oct.md~", ".doc.oct.md.swp", "doc.oct.md.bak", "doc.oct.md.new", ".doc.oct.md.lock", "doc.tmp", ".tmp"]
    recs = []
    n = [0]

    def fresh(existing):
        n[0] += 1
        d = os.path.join(base, "root", "w%d" % n[0])
        os.makedirs(d)
        t = os.path.join(d, "doc.oct.md")
        if existing:
            with open(t, "w") as f:
                f.write(DOC)
        return d, t

    try:
        for rname, fn in routes.items():
            for existing in (True, False):
                if not existing and rname in ("write_changes", "write_normalize", "cli_write_changes"):
                    continue
                seen = []
                for _ in range(2):
                    d, t = fresh(existing)
                    rec = fsio.Recorder(d, lambda path: path)
                    un = fsio.install(rec)
                    try:
                        try:
                            fn(t)
                        except Exception:
                            pass
                    finally:
                        un()
                    names = set()
                    for e in rec.events:
                        for pth in (e.get("path"), e.get("path2")):
                            if isinstance(pth, str) and os.path.dirname(pth) == d and pth != t:
                                names.add(os.path.basename(pth))
                    seen.append(names)
                planted = sorted((seen[0] & seen[1]) | set(conventional))
                for name in planted:
                    d, t = fresh(existing)
                    with open(victim, "w") as f:
                        f.write(SECRET)
                    os.symlink(victim, os.path.join(d, name))
                    try:
                        fn(t)
                    except Exception:
                        pass
                    with open(victim) as f:
                        changed = f.read() != SECRET
                    recs.append({"route": "%s%s:%s" % (rname, "" if existing else "(new)", name if name in conventional else "observed-staging-name"),
                                 "outside_changed": bool(changed or sorted(os.listdir(outside)) != ["victim.oct.md"]),
                                 "target_is_link": os.path.islink(t), "predictable": name in (seen[0] & seen[1])})
    finally:
        shutil.rmtree(base, ignore_errors=True)
    return recs


def _cleanup():
    base = os.environ.get("VERIF_SCRATCH", "/var/tmp")
    for n in os.listdir(base):
        if n.startswith("c19.") or n.startswith("c19n.") or n.startswith("c19f."):
            shutil.rmtree(os.path.join(base, n), ignore_errors=True)


def _dangling(fl, clause):
    """refusal/early clauses on a path whose only symlink is the dangling one (exists() and is_symlink() walk)"""
    segs = fl["case"].get("segs", [])
    links = [k for k in segs if k in ("ld", "ldi", "lf.oct.md", "dl.oct.md")]
    return clause.startswith("RefusedEarly:") and links == ["dl.oct.md"] and ".." not in segs


MATCHERS = {}


def run(ctx):
    try:
        maxseg = 4 if ctx.thorough else 3
        res = ctx.model("PathGuard", tag="PathGuard_paths", constants={"MaxSeg": maxseg, "Space": "paths"},
                        invariants=["EmitCase"], required_actions=["AddSeg"])
        paths = list(res.payload_lines())
        res = ctx.model("PathGuard", tag="PathGuard_uris", constants={"MaxSeg": 4 if ctx.thorough else 3, "Space": "uris"},
                        invariants=["EmitCase"], required_actions=["AddSeg"])
        uris = list(res.payload_lines())
        res = ctx.model("NameSpace", constants={"MaxLen": 4 if ctx.thorough else 3}, invariants=["EmitCase"],
                        required_actions=["Extend"])
        names = list(res.payload_lines())
        recs = engine.parallel_map(replay_path, list(enumerate(paths)), chunk=25)
        n0 = len(recs)
        recs += engine.parallel_map(replay_uri, [(n0 + k, u) for k, u in enumerate(uris)], chunk=100)
        nrec = engine.parallel_map(replay_name, [(k, n) for k, n in enumerate(names)], chunk=100)
        nrec.append({"i": len(nrec), "kind": "frozen", "case": {"name": []}, "obs": frozen_cases()})
        nrec.append({"i": len(nrec), "kind": "staging", "case": {"name": []}, "obs": staging_cases()})
    finally:
        _cleanup()
    # uniform record shape for TLC: every obs entry carries every field
    tr = []
    for r in recs:
        o2 = []
        for o in r["obs"]:
            full = {"route": o["route"], "refused": False, "touched": 0, "outside": 0, "changed": False, "outside_changed": False,
                    "leak": False, "returned_outside": False}
            full.update(o)
            o2.append(full)
        tr.append({"i": r["i"], "space": r["space"], "case": r["case"], "obs": o2})
    fails = ctx.validate("Trace_PathGuard", tr, constants={"MaxSeg": 0, "Space": "paths"})
    ntr = []
    for r in nrec:
        o2 = []
        for o in r["obs"]:
            full = {"route": o["route"], "opened_elsewhere": 0, "loaded": False, "loaded_from_schema_dir": False,
                    "resolved": False, "digest_matches": False, "in_cache": False, "outside_changed": False, "target_is_link": False, "predictable": False}
            full.update(o)
            o2.append(full)
        ntr.append({"i": r["i"], "kind": r["kind"], "case": r["case"], "obs": o2})
    nfails = ctx.validate("Trace_NameSpace", ntr, constants={"MaxLen": 0})
    failures = [{"i": r["i"], "case": r["case"], "obs": r["obs"], "path": r["path"], "fails": fails[r["i"]]} for r in recs if r["i"] in fails]
    failures += [{"i": 10 ** 6 + r["i"], "case": r["case"], "obs": r["obs"], "path": repr(atoms_text(r["case"]["name"])),
                  "fails": nfails[r["i"]]} for r in nrec if r["i"] in nfails]
    nontrivial = sum(1 for p in paths if any(k in ("..", "ld", "ldi", "lf.oct.md", "dl.oct.md") or not k.startswith(("f.", "n.oct", "d"))
                                            for k in p["segs"])) + len(uris) + len(names)
    samples = [{"path": r["path"], "obs": r["obs"][:2]} for r in recs[11::max(1, len(recs) // 3)]][:3]
    samples.append({"schema_name": atoms_text(nrec[37]["case"]["name"]), "obs": nrec[37]["obs"]})
    return engine.report(
        ctx, failures=failures, matchers=MATCHERS, evaluations=sum(len(r["obs"]) for r in recs) + sum(len(r["obs"]) for r in nrec),
        distinct_nontrivial=nontrivial,
        rule="cases = every path of <= MaxSeg segment kinds (absolute and relative) and every source URI of spec/PathGuard.tla over "
             "the fixed layout, every schema-name string of <= MaxLen symbols of spec/NameSpace.tla, 13 frozen references + 6 byte variants of the pinned "
             "file + tampering after use; symlinks to an outside file planted under every staging name a write route was seen to reuse and under 9 "
             "conventional names beside the target; "
             "non-trivial = path contains a '..', a symlink kind, a disallowed or odd name (all URIs and names count)",
        samples=samples, exhaustive=True,
        descr=lambda fl, clause: "path=%r" % (fl["path"][:120],),
        assumptions=["file operations are observed by interposition at the Python call boundary and classified by os.path.realpath "
                     "of the path they were given; stat/lstat/readlink of path components are not 'reading a file'",
                     "refusal is demanded only where the statement demands it (one direction); NUL and 300-character names are "
                     "DontCare for refusal but not for confinement",
                     "schema-name probes run with a project specs/schemas directory in the cwd plus decoy files that only a "
                     "traversal could reach"],
        extra_coverage={"routes": ["write_content", "write_content_dry", "write_changes", "write_changes_dry", "write_normalize",
                                   "write_normalize_dry", "validate_file", "cli_write", "cli_normalize_o", "cli_seal_o", "validate_source_uri",
                                   "load_schema_by_name", "octave_validate(schema=name)", "resolve_hermetic_standard"]})
