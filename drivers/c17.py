"""C17 - base_hash is a real compare-and-swap; failed and dry calls change nothing.

(a) histories : spec/CasRegister.tla enumerates all histories of write / dry / bad / external operations with every kind of
                base_hash; each is stepped through the real tool (WriteTool.execute, atomic_write_octave) with a snapshot of the
                whole sandbox tree before and after every call; spec/Trace_Cas.tla runs the register alongside.
(b) schedules : spec/CasWriters.tla is the faithful multi-writer protocol; TLC model-checks it (the known window is a TLC
                counterexample; the variant with an atomic re-check+replace has none) and emits every complete interleaving with
                the model's prediction; each interleaving is imposed on real writer threads parked at every operation on the
                shared target; spec/Trace_Writers.tla judges conformance and the properties on the observed facts.
"""
from __future__ import annotations

import hashlib
import json
import os
import shutil
import tempfile
import threading

from mbt import engine
from drivers import fsio
from drivers.common import run_async


def sha(t):
    return hashlib.sha256(t.encode("utf-8")).hexdigest()


def doc(tag):
    return "===DOC===\nA::1\nB::%s\n===END===\n" % tag


def snapshot(root):
    out = {}
    for dp, dn, fn in os.walk(root):
        rel = os.path.relpath(dp, root)
        out[rel + "/"] = ("dir", oct(os.lstat(dp).st_mode & 0o7777))
        for n in fn:
            p = os.path.join(dp, n)
            st = os.lstat(p)
            with open(p, "rb") as f:
                out[os.path.join(rel, n)] = ("file", hashlib.sha256(f.read()).hexdigest(), oct(st.st_mode & 0o7777))
    return out


# ------------------------------------------------------------------------------------------ (a) histories
def run_history(item):
    i0, entry, hist = item
    from octave_mcp.core.emitter import emit
    from octave_mcp.core.file_ops import atomic_write_octave
    from octave_mcp.core.parser import parse
    from octave_mcp.mcp.write import WriteTool

    root = tempfile.mkdtemp(prefix="c17.", dir=os.environ.get("VERIF_SCRATCH", "/var/tmp"))
    sub = os.path.join(root, "d")           # the target lives in a directory that does not exist yet when absent
    target = os.path.join(sub, "doc.oct.md")
    recs = []
    try:
        olds = ["===DOC===\nA::0\nB::never\n===END===\n"]
        if hist["init"] == "present":
            os.makedirs(sub)
            with open(target, "w", encoding="utf-8", newline="") as f:
                f.write("===DOC===\nA :: 1\nB::init\n===END===\n")      # present but not canonical
        tool = WriteTool()
        for n, op in enumerate(hist["ops"], start=1):
            kind, base = op["kind"], op["base"]
            cur = None
            if os.path.exists(target):
                with open(target, encoding="utf-8", newline="") as f:
                    cur = f.read()
            if kind in ("ext", "ext_empty"):
                os.makedirs(sub, exist_ok=True)
                if cur is not None:
                    olds.append(cur)
                with open(target, "w", encoding="utf-8", newline="") as f:
                    f.write("===DOC===\nA :: 1\nB::ext%d\n===END===\n" % n if kind == "ext" else "")
                recs.append({"op": op, "obs": {"status": "ext", "code": "-", "changed": True, "hash_ok": True,
                                               "target_changed": True, "only_target": True}})
                continue
            content = doc("v%d" % n) if kind != "bad" else "===DOC===\nA::[1,2\nB::(\n"
            new_canon = emit(parse(doc("v%d" % n)))
            bh = None
            if base == "current":
                bh = sha(cur) if cur is not None else sha("nothing")
            elif base == "stale":
                bh = sha([o for o in olds if o != cur][-1])
            elif base == "future":
                bh = sha(new_canon)
            before = snapshot(root)
            try:
                if entry == "tool":
                    kw = {"target_path": target}
                    if kind in ("content", "dry", "bad"):
                        kw["content"] = content
                    elif kind == "changes":
                        kw["changes"] = {"B": "v%d" % n, "N%d" % n: n}
                    if kind == "dry":
                        kw["corrections_only"] = True
                    if bh:
                        kw["base_hash"] = bh
                    r = run_async(tool.execute(**kw))
                    status = "ok" if r.get("status") == "success" else "error"
                    code = ",".join(str(e.get("code")) for e in r.get("errors", [])) or "-"
                    rh = r.get("canonical_hash")
                else:
                    r = atomic_write_octave(target, new_canon if kind != "bad" else content, bh)
                    status = "ok" if r.get("status") == "success" else "error"
                    code = "E_HASH" if "Hash mismatch" in str(r.get("error", "")) else ("-" if status == "ok" else "E_OTHER")
                    rh = r.get("canonical_hash")
            except Exception as e:
                status, code, rh = "error", "raised:" + type(e).__name__, None
            after = snapshot(root)
            now = None
            if os.path.exists(target):
                with open(target, encoding="utf-8", newline="") as f:
                    now = f.read()
            diff = {k for k in set(before) | set(after) if before.get(k) != after.get(k)}
            trel = os.path.relpath(target, root)
            if cur is not None and now != cur:
                olds.append(cur)
            recs.append({"op": op, "obs": {"status": status, "code": code.split(",")[0], "changed": bool(diff),
                                           "hash_ok": now is not None and rh == sha(now),
                                           "target_changed": now != cur,
                                           "only_target": diff <= {trel, os.path.relpath(sub, root) + "/"} | ({"./"} if cur is None else set())},
                         "diff": sorted(diff)[:6]})
    finally:
        shutil.rmtree(root, ignore_errors=True)
    return recs


# ------------------------------------------------------------------------------------------ (b) schedules
class Sched:
    """Imposes a schedule [(writer, step)] on writer threads that park at every operation on the shared target."""

    def __init__(self, target, base_hash):
        self.cv = threading.Condition()
        self.parked = {}
        self.turn = None
        self.done = set()
        self.target = target
        self.base_hash = base_hash
        self.reads = {}
        self.installs = []

    def classify(self, rec, op, path, path2):
        if op == "rename" and path2 == "target":
            return "replace"
        if path != "target":
            return None
        if op == "stat" and not rec.seen_stat:
            rec.seen_stat = True
            return "stat"
        if op == "open_r":
            rec.nread += 1
            return rec.read_names[rec.nread - 1] if rec.nread <= len(rec.read_names) else "read%d" % rec.nread
        return None

    def hook(self, rec, j, op, path, path2):
        step = self.classify(rec, op, path, path2)
        if step is None:
            return
        w = rec.wid
        with self.cv:
            self.parked[w] = step
            self.cv.notify_all()
            while self.turn != w:
                self.cv.wait()
            self.turn = None
            del self.parked[w]
            if step == "replace":
                try:
                    with fsio._real["open"](self.target, "rb") as f:
                        over = hashlib.sha256(f.read()).hexdigest()
                except OSError:
                    over = "absent"
                self.installs.append({"w": w, "over": over})

    def finish(self, w):
        with self.cv:
            self.done.add(w)
            self.cv.notify_all()

    def wait_parked_or_done(self, w, timeout=20):
        with self.cv:
            ok = self.cv.wait_for(lambda: w in self.parked or w in self.done, timeout)
            if not ok:
                raise engine.Machinery("scheduler: writer %s neither parked nor finished" % w)
            return self.parked.get(w)

    def grant(self, w):
        with self.cv:
            self.turn = w
            self.cv.notify_all()


def run_schedule(item):
    i, cfg, case = item
    from octave_mcp.core.emitter import emit
    from octave_mcp.core.file_ops import atomic_write_octave
    from octave_mcp.core.parser import parse
    from octave_mcp.mcp.write import WriteTool
    import asyncio

    root = tempfile.mkdtemp(prefix="c17s.", dir=os.environ.get("VERIF_SCRATCH", "/var/tmp"))
    target = os.path.join(root, "doc.oct.md")
    init = "===DOC===\nA :: 1\nB::init\n===END===\n"        # present, not canonical (normalize mode has work to do)
    with open(target, "w", encoding="utf-8", newline="") as f:
        f.write(init)
    base = sha(init)
    sch = Sched(target, base)
    results = {}
    recs = {}
    threads = []
    writers = cfg["writers"]                      # {wid: (entry, mode, has_base)}

    def name_of(path):
        return "target" if path == target else ("root" if path == root else "tmp:" + os.path.basename(path))

    def body(w):
        entry, mode, hb = writers[w]
        try:
            if entry == "tool":
                kw = {"target_path": target}
                if mode == "content":
                    kw["content"] = doc("w%d" % w)
                elif mode == "changes":
                    kw["changes"] = {"B": "w%d" % w}
                if hb:
                    kw["base_hash"] = base
                loop = asyncio.new_event_loop()
                try:
                    r = loop.run_until_complete(WriteTool().execute(**kw))
                finally:
                    loop.close()
                results[w] = "ok" if r.get("status") == "success" else ",".join(str(e.get("code")) for e in r.get("errors", []))
            else:
                r = atomic_write_octave(target, emit(parse(doc("w%d" % w))), base if hb else None)
                results[w] = "ok" if r.get("status") == "success" else ("E_HASH" if "Hash mismatch" in str(r.get("error")) else "E_OTHER")
        except Exception as e:  # noqa
            results[w] = "raised:" + type(e).__name__
        finally:
            sch.finish(w)

    table = {}
    for w in writers:
        rec = fsio.Recorder(root, name_of, on_call=sch.hook)
        rec.wid, rec.seen_stat, rec.nread = w, False, 0
        rec.read_names = ["read1", "read1b", "read2"] if writers[w][1] == "normalize" else ["read1", "read2"]
        recs[w] = rec
        table["writer-%d" % w] = rec
    un = fsio.install(table)
    steps_ok = True
    try:
        for w in writers:
            t = threading.Thread(target=body, args=(w,), name="writer-%d" % w, daemon=True)
            threads.append(t)
            t.start()
        for stp in case["sched"]:
            w, s = stp["w"], stp["s"]
            if w == 0:
                with fsio._real["open"](target, "w", encoding="utf-8", newline="") as f:
                    f.write(emit(parse(doc("ext"))))
                continue
            got = sch.wait_parked_or_done(w)
            if got is None:
                steps_ok = False          # the writer finished before the model says it would
                continue
            if got != s:
                steps_ok = False
            sch.grant(w)
            with sch.cv:
                sch.cv.wait_for(lambda: w not in sch.parked or sch.turn is None, 20)
            # wait until it parks again or is done, so that only one writer ever runs
            sch.wait_parked_or_done(w)
        # release anything still parked (the real code took more steps than the model): let it run to completion
        for _ in range(50):
            alive = [w for w in writers if w not in sch.done]
            if not alive:
                break
            for w in alive:
                if sch.wait_parked_or_done(w) is not None:
                    steps_ok = False
                    sch.grant(w)
                    with sch.cv:
                        sch.cv.wait_for(lambda: w not in sch.parked or sch.turn is None, 20)
        for t in threads:
            t.join(20)
    finally:
        un()
    with open(target, encoding="utf-8", newline="") as f:
        final = f.read()
    names = sorted(os.listdir(root))
    shutil.rmtree(root, ignore_errors=True)
    # changes mode installs the initial text with B replaced: the same canonical text as content mode
    contents = {sha(emit(parse(doc("w%d" % w)))) if writers[w][1] != "normalize" else sha(emit(parse(init))): w for w in writers}
    contents[sha(emit(parse(doc("ext"))))] = 9
    contents[base] = 0
    installs = [{"w": x["w"], "base": bool(writers[x["w"]][2]), "match": x["over"] == base} for x in sch.installs]
    res = [("ok" if results.get(w) == "ok" else ("E_HASH" if "E_HASH" in str(results.get(w)) else str(results.get(w)))) for w in sorted(writers)]
    last = sch.installs[-1]["w"] if sch.installs else None
    ext_after_last = False
    final_owner = contents.get(sha(final), -1)
    if last is None:
        final_ok = final_owner in (0, 9)
    else:
        # an external rewrite scheduled after the last install legitimately owns the file
        idx_ext = max([k for k, stp in enumerate(case["sched"]) if stp["w"] == 0] or [-1])
        idx_last = max([k for k, stp in enumerate(case["sched"]) if stp["s"] == "replace"] or [-1])
        final_ok = final_owner == (9 if idx_ext > idx_last else last)
    obs = {"steps_as_model": steps_ok, "res": res, "installs": installs,
           "winners_with_base": sum(1 for w in writers if writers[w][2] and results.get(w) == "ok"),
           "final_is_last_install": bool(final_ok), "losers_left_no_trace": names == ["doc.oct.md"]}
    return {"i": i, "case": {"sched": case["sched"], "res": case["res"], "model_ok": case["model_ok"], "cfg": cfg["name"]}, "obs": obs}


def job_hist(item):
    return run_history(item)


def _window(fl, clause):
    """the faithful model itself predicts the violation for this schedule (both re-checks before either replace)"""
    return fl["case"]["model_ok"] is False and fl["obs"]["res"] == fl["case"]["res"] and fl["obs"]["steps_as_model"]


def _leftover_dirs(fl, clause):
    return fl["case"].get("entry") in ("tool", "api") and fl["obs"].get("status") == "error" and fl.get("diff_only_dirs", False)


MATCHERS = {"C17-cas-window": _window, "C17-mkdir-leftover-on-error": _leftover_dirs}


def run(ctx):
    # ---------------- (a) histories
    kinds = {"content", "changes", "normalize", "dry", "bad", "ext", "ext_empty"}
    bases = {"none", "current", "stale", "future"}
    maxlen = 4 if ctx.thorough else 3
    res = ctx.model("CasRegister", constants={"MaxLen": maxlen, "Kinds": kinds, "Bases": bases},
                    invariants=["EmitCase"], required_actions=["Extend"])
    hists = list(res.payload_lines())
    api_hists = [h for h in hists if all(o["kind"] in ("content", "ext", "ext_empty") for o in h["ops"])]
    items = [(k, "tool", h) for k, h in enumerate(hists)] + [(len(hists) + k, "api", h) for k, h in enumerate(api_hists)]
    outs = engine.parallel_map(job_hist, items, chunk=60)
    trace, where = [], {}
    n = 0
    for tid, (it, recs) in enumerate(zip(items, outs), start=1):
        for e in recs:
            n += 1
            trace.append({"i": n, "tid": tid, "init": it[2]["init"], "op": e["op"], "obs": e["obs"]})
            where[n] = (tid - 1, e)
    fails = ctx.validate("Trace_Cas", trace, stateful_key="tid", tag="Trace_Cas",
                         constants={"MaxLen": 0, "Kinds": {"content"}, "Bases": {"none"}})
    failures = []
    for ei, cl in sorted(fails.items()):
        t, e = where[ei]
        d = e.get("diff", [])
        failures.append({"i": ei, "case": {"entry": items[t][1], "history": items[t][2], "failing_op": e["op"]},
                         "obs": e["obs"], "diff": d, "diff_only_dirs": bool(d) and all(x.endswith("/") for x in d), "fails": cl})
    ntraces_a = len(items)
    # ---------------- (b) schedules
    # design check: the faithful model has the window (TLC counterexample), the atomic-install variant has none
    base_consts = {"Writers": {1, 2}, "HasBase": "@HB_all", "WithExt": False, "Norm": {1}}
    r_atomic = ctx.model("CasWriters", tag="CasWriters_atomic", constants=dict(base_consts, AtomicInstall=True),
                         invariants=["InstallOnlyOnMatch", "AtMostOneWinner"], required_actions=["Read2"])
    r_faith = ctx.model("CasWriters", tag="CasWriters_faithful_inv", constants=dict(base_consts, AtomicInstall=False),
                        invariants=["InstallOnlyOnMatch", "AtMostOneWinner"], allow_violation=True, workers=1)
    window_in_model = bool(r_faith.violated)
    cfgs = [
        {"name": "tool:content+content", "writers": {1: ("tool", "content", True), 2: ("tool", "content", True)}, "hb": "@HB_all", "ext": False},
        {"name": "tool:changes+content", "writers": {1: ("tool", "changes", True), 2: ("tool", "content", True)}, "hb": "@HB_all", "ext": False},
        {"name": "tool:normalize+changes", "writers": {1: ("tool", "normalize", True), 2: ("tool", "changes", True)}, "hb": "@HB_all", "ext": False},
        {"name": "api:content+content", "writers": {1: ("api", "content", True), 2: ("api", "content", True)}, "hb": "@HB_all", "ext": False},
        {"name": "tool:content(base)+content(no base)", "writers": {1: ("tool", "content", True), 2: ("tool", "content", False)}, "hb": "@HB_first", "ext": False},
        {"name": "tool:changes+ext", "writers": {1: ("tool", "changes", True)}, "hb": "@HB_all", "ext": True, "W": {1}},
        {"name": "api:content+ext", "writers": {1: ("api", "content", True)}, "hb": "@HB_all", "ext": True, "W": {1}},
    ]
    if ctx.thorough:
        cfgs.append({"name": "tool:3 writers", "writers": {1: ("tool", "content", True), 2: ("tool", "changes", True), 3: ("tool", "content", True)},
                     "hb": "@HB_all", "ext": False, "W": {1, 2, 3}})
        cfgs.append({"name": "tool:content+changes+ext", "writers": {1: ("tool", "content", True), 2: ("tool", "changes", True)},
                     "hb": "@HB_all", "ext": True})
    sitems = []
    for c in cfgs:
        consts = {"Writers": c.get("W", {1, 2}), "HasBase": c["hb"], "WithExt": c["ext"], "AtomicInstall": False,
                  "Norm": {w for w in c["writers"] if c["writers"][w][1] == "normalize"}}
        rr = ctx.model("CasWriters", tag="CasWriters_" + c["name"].replace(":", "_").replace("+", "_").replace(" ", "_").replace("(", "").replace(")", ""),
                       constants=consts, invariants=["EmitCase"], required_actions=["Replace"])
        for case in rr.payload_lines():
            sitems.append((len(sitems) + 1, {"name": c["name"], "writers": c["writers"]}, case))
    # threads + global patching: one schedule at a time per process
    souts = engine.parallel_map(run_schedule, sitems, chunk=20)
    sfails = ctx.validate("Trace_Writers", souts, tag="Trace_Writers")
    for r in souts:
        if r["i"] in sfails:
            failures.append({"i": 10 ** 6 + r["i"], "case": r["case"], "obs": r["obs"], "fails": sfails[r["i"]]})
    # ---------------- (c) system level: workspace lives over two paths with every tool in between (spec/OctaveSystem.tla)
    from drivers import system
    sys_failures, sys_records, sys_lives = system.run_system(ctx)
    failures.extend(sys_failures)
    # ---------------- (d) calls in flight together on one event loop (spec/OneLoop.tla)
    from drivers import oneloop
    ol_failures, ol_cases = oneloop.run_oneloop(ctx)
    failures.extend(ol_failures)
    ctx.trace_records = ntraces_a + len(souts) + sys_records
    nontrivial = sum(1 for it in items if any(o["base"] != "none" for o in it[2]["ops"])) + \
        sum(1 for s in sitems if len({x["w"] for x in s[2]["sched"]}) > 1)
    samples = [{"history": items[k][2], "entry": items[k][1], "observed": [e["obs"] for e in outs[k]]} for k in (5, len(items) // 2)]
    samples += [{"schedule": [(x["w"], x["s"]) for x in souts[k]["case"]["sched"]], "config": souts[k]["case"]["cfg"],
                 "model_predicts": souts[k]["case"]["res"], "observed": souts[k]["obs"]} for k in (0, len(souts) // 2)]
    return engine.report(
        ctx, failures=failures, matchers=MATCHERS, evaluations=sum(len(o) for o in outs) + len(souts) + sys_records + ol_cases,
        distinct_nontrivial=nontrivial,
        rule="(a) all histories of <= MaxLen operations over {content, changes, normalize, dry, bad, ext} x {none, current, stale, "
             "future} from an absent or present file (spec/CasRegister.tla), through WriteTool.execute and (content/ext/bad only) "
             "atomic_write_octave; (b) all complete interleavings of the writers' operations on the shared target for each "
             "configuration in schedule_configs (spec/CasWriters.tla); non-trivial = history with >= 1 base_hash / schedule with a "
             "context switch; (c) workspace lives of spec/OctaveSystem.tla over two paths (write with content / changes / dry x base_hash "
             "none / match / stale, validate, eject, seal, normalize, external edit / removal): every 2-step life of a one-item document "
             "and TLC-simulated lives of 7 (quick) / 11 (thorough) steps, judged step by step by spec/Trace_System.tla",
        samples=samples, exhaustive=True,
        descr=lambda fl, clause: ("one_loop=%s observed=%s" % (json.dumps(fl["case"]["one_loop"]), json.dumps(fl["obs"])[:300])) if "one_loop" in fl["case"] else ("system_life=%s observed=%s" % (json.dumps(fl["case"]["system_life"], ensure_ascii=True)[-700:], json.dumps(fl["obs"].get("note", ""))[:200]))
        if "system_life" in fl["case"] else ("history=%s" % json.dumps(fl["case"].get("history"))[:200]) if "history" in fl["case"]
        else "config=%s schedule=%s" % (fl["case"]["cfg"], [(x["w"], x["s"]) for x in fl["case"]["sched"]]),
        assumptions=["one loop (d): the calls of a case (spec/OneLoop.tla) are started together with asyncio.gather on one loop and one WriteTool; "
                     "os.replace on the target waits up to 0.15 s for the other calls to reach their install step; the observed results and "
                     "final values must equal the outcome of some serial order",
                     "system lives: for base_hash=match the harness hashes the bytes the file holds before the call; a refused call must "
                     "carry E_HASH; the hash an accepted write returns must be the hash of the bytes it installed; what `octave seal -o f` / "
                     "`octave normalize -o f` / octave_write wrote is what octave_eject(canonical) shows; Seal clauses compare verify_seal on "
                     "the file with the specification's sealed-content flag",
                     "writers are threads of one driver process, each parked by interposition at every operation on the shared "
                     "target path and released one at a time in the order TLC enumerated; operations on private temp files are "
                     "not scheduling points (they commute)",
                     "per the documented contract base_hash binds only an existing file",
                     "snapshots compare path, type, bytes and mode of the whole sandbox tree (timestamps excluded)"],
        extra_coverage={"schedule_configs": [c["name"] for c in cfgs], "window_found_by_TLC_in_faithful_model": window_in_model,
                        "atomic_install_variant_clean": not r_atomic.violated, "histories": ntraces_a, "schedules": len(souts),
                        "system_lives": sys_lives, "system_steps": sys_records, "one_loop_cases": ol_cases})
