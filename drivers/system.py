"""System level: workspace lives of spec/OctaveSystem.tla replayed into the real tools (hosted by the C17 check).

model run : spec/OctaveSystem.tla - grow a document (Author), then a life of MaxSteps calls over two paths: octave_write with content /
            with changes / dry, each with base_hash none | match | stale; octave_validate; octave_eject; `octave seal`, `octave
            normalize` in place; an editor outside the tools replacing or removing a file.  Exhaustive for short lives, TLC simulation
            for long ones.
replay    : every step is made on long-lived tool instances over a scratch directory; after each step every file is read back by the
            real reader and projected, verify_seal is asked, and the bytes of the other path are compared
validation: spec/Trace_System.tla compares with the expectations the specification attached to the step
"""
from __future__ import annotations

import hashlib
import json
import os
import shutil
import tempfile

from mbt import engine
from drivers.common import run_async
from drivers.docs import EMPTY_ABS, lines_text, project
from drivers.c18 import pyreq

PATHS = ["a", "b"]
SYS_REQS = [{"key": "K1", "op": "value", "v": "two"}, {"key": "K1", "op": "DELETE", "v": "-"}, {"key": "K2", "op": "null", "v": "-"},
            {"key": "K3", "op": "value", "v": "l3"}, {"key": "META.VERSION", "op": "value", "v": "numstr"}, {"key": "K2", "op": "value", "v": "int"}]
_st = {}


def _tools():
    if "w" not in _st:
        from octave_mcp.mcp.eject import EjectTool
        from octave_mcp.mcp.validate import ValidateTool
        from octave_mcp.mcp.write import WriteTool
        _st.update(w=WriteTool(), v=ValidateTool(), e=EjectTool())
        _st["dir"] = tempfile.mkdtemp(prefix="system.", dir=os.environ.get("VERIF_SCRATCH", "/var/tmp"))
    return _st


def strip_seal(abs_doc):
    """the projection without the §SEAL section (the specification carries the seal as a flag)"""
    body, skip = [], None
    for it in abs_doc["body"]:
        if skip is not None and it["d"] > skip:
            continue
        skip = None
        if it["k"] == "section" and it["key"] == "SEAL" and it["sid"] == "SEAL":
            skip = it["d"]
            continue
        body.append(it)
    return dict(abs_doc, body=body)


def observe(paths):
    from octave_mcp.core.parser import parse
    from octave_mcp.core.sealer import verify_seal
    holds, seal, raw = {}, {}, {}
    for name, p in paths.items():
        if not os.path.exists(p):
            holds[name] = {"there": False, "abs": EMPTY_ABS_DOC}
            seal[name] = "ABSENT"
            raw[name] = None
            continue
        with open(p, "rb") as f:
            data = f.read()
        raw[name] = data
        try:
            doc = parse(data.decode("utf-8"))
            holds[name] = {"there": True, "abs": strip_seal(project(doc))}
            seal[name] = verify_seal(doc).status.value
        except Exception as e:
            holds[name] = {"there": True, "abs": dict(EMPTY_ABS_DOC, env="UNREADABLE:" + type(e).__name__)}
            seal[name] = "UNREADABLE"
    return holds, seal, raw


EMPTY_ABS_DOC = dict(EMPTY_ABS, env="DOC")


def replay(item):
    k, life = item
    from click.testing import CliRunner
    from octave_mcp.cli.main import cli
    st = _tools()
    d = os.path.join(st["dir"], "life%d_%d" % (os.getpid(), k))
    os.makedirs(d, exist_ok=True)
    paths = {n: os.path.join(d, n + ".oct.md") for n in PATHS}
    tool_written = {n: False for n in PATHS}
    recs = []
    _, _, before = observe(paths)
    for j, s in enumerate(life["log"]):
        p, name, act, arg = paths[s["path"]], s["path"], s["act"], s["arg"]
        ok, echo, note = False, True, ""
        try:
            if act in ("write", "amend", "dry", "write_mutated", "dry_amend"):
                kw = {"target_path": p}
                if act in ("amend", "dry_amend"):
                    kw["changes"] = pyreq([arg["req"]], False)[0]
                else:
                    kw["content"] = lines_text(arg["lines"], arg["final"])
                if act == "write_mutated":
                    ch = pyreq([arg["req"]], False)[0]
                    kw["mutations"] = {next(iter(ch))[5:]: next(iter(ch.values()))}
                if act in ("dry", "dry_amend"):
                    kw["corrections_only"] = True
                if arg["hash"] == "match":
                    kw["base_hash"] = hashlib.sha256(before[name]).hexdigest()
                elif arg["hash"] == "stale":
                    kw["base_hash"] = "0" * 64
                r = run_async(st["w"].execute(**kw))
                ok = r.get("status") == "success"
                if arg["hash"] == "stale":
                    echo = any(e.get("code") == "E_HASH" for e in r.get("errors", []))
                    note = "errors=%s" % json.dumps(r.get("errors"))[:200]
                elif ok and act not in ("dry", "dry_amend"):
                    with open(p, "rb") as f:
                        echo = r.get("canonical_hash") == hashlib.sha256(f.read()).hexdigest()          # the hash handed out binds the bytes installed
                    note = "canonical_hash"
                    tool_written[name] = True
                if not ok and not note:
                    note = "errors=%s" % json.dumps(r.get("errors"))[:200]
            elif act in ("cli_write", "cli_amend"):
                argv = ["write", p]
                if act == "cli_amend":
                    argv += ["--changes", json.dumps(pyreq([arg["req"]], False)[0])]
                else:
                    argv += ["--content", lines_text(arg["lines"], arg["final"])]
                if arg["hash"] == "match":
                    argv += ["--base-hash", hashlib.sha256(before[name]).hexdigest()]
                elif arg["hash"] == "stale":
                    argv += ["--base-hash", "0" * 64]
                rr = CliRunner().invoke(cli, argv, catch_exceptions=True)
                ok = rr.exit_code == 0
                note = "exit=%s %s" % (rr.exit_code, rr.output[-200:])
                tool_written[name] = tool_written[name] or ok
            elif act == "validate_fix":
                r = run_async(st["v"].execute(file_path=p, schema="META", fix=True))
                ok = r.get("status") == "success"
                echo = r.get("validation_status") in ("VALIDATED", "INVALID")
            elif act == "cli_verify":
                rr = CliRunner().invoke(cli, ["validate", p, "--verify-seal"], catch_exceptions=True)
                ok = rr.exit_code == 0
                note = "exit=%s %s" % (rr.exit_code, rr.output[-200:])
            elif act == "validate":
                r = run_async(st["v"].execute(content=before[name].decode("utf-8"), schema="META"))
                ok = r.get("status") == "success"
                echo = r.get("validation_status") in ("VALIDATED", "INVALID")
            elif act == "eject":
                r = run_async(st["e"].execute(content=before[name].decode("utf-8"), schema="META", mode="canonical", format="octave"))
                ok = "output" in r
                if tool_written[name]:
                    echo = r.get("output") == before[name].decode("utf-8")                               # what a tool wrote is what a tool shows
                    note = "eject output differs from the file a tool wrote"
            elif act in ("seal", "normalize"):
                rr = CliRunner().invoke(cli, [act, p, "-o", p], catch_exceptions=True)
                ok = rr.exit_code == 0
                note = rr.output[-200:]
                tool_written[name] = tool_written[name] or ok
            elif act == "edit":
                with open(p, "w", encoding="utf-8", newline="") as f:
                    f.write(lines_text(arg["lines"], arg["final"]))
                ok = True
                tool_written[name] = False
            elif act == "remove":
                os.unlink(p)
                ok = True
                tool_written[name] = False
        except Exception as e:
            ok, note = False, "raised %s: %s" % (type(e).__name__, str(e)[:160])
        holds, seal, after = observe(paths)
        others = all(after[n] == before[n] for n in PATHS if n != name)
        recs.append({"life": k, "j": j, "step": s, "obs": {"ok": bool(ok), "holds": holds, "seal": seal, "others": bool(others), "echo": bool(echo)}, "note": note})
        before = after
    shutil.rmtree(d, ignore_errors=True)
    return {"k": k, "recs": recs}


def cleanup():
    base = os.environ.get("VERIF_SCRATCH", "/var/tmp")
    for n in os.listdir(base):
        if n.startswith("system."):
            shutil.rmtree(os.path.join(base, n), ignore_errors=True)


def lives(ctx):
    """model runs -> list of lives (doc + log)"""
    base = dict(MaxItems=2, MaxDepth=1, MaxDev=0, PoolA={"w", "int"}, PoolB={"l3"}, PoolC=set(), HeaderMode="plain", HeaderMaxBody=0,
                Feat={"block"}, Knobs=set(), MaxReqs=0, ReqKeys={"K1", "K2", "K3"}, ReqVals={"two", "l3", "numstr", "int"}, MetaKeys={"VERSION"},
                Paths=set(PATHS), SysReqs="@SysReqsAll")
    out, seen = [], set()

    def take(res):
        for lf in res.payload_lines():
            key = json.dumps(lf, sort_keys=True)
            if key not in seen:
                seen.add(key)
                out.append(lf)

    # every life of 2 steps over a one-item document
    take(ctx.model("OctaveSystem", tag="System_short", constants=dict(base, MaxItems=1, MaxDepth=0, Feat=set(), PoolA={"w"}, MaxSteps=2,
                                                                         SysReqs="@SysReqsSmall" if not ctx.thorough else "@SysReqsAll"),
                   init="SInit", next_="SNext", invariants=["EmitLife", "RefusedChangesNothing", "ReadersChangeNothing", "SealFollowsContent"], required_actions=["SGrow", "Serve"], heap="8g"))
    # long lives by simulation
    n, depth = (400, 14) if ctx.thorough else (60, 10)
    take(ctx.model("OctaveSystem", tag="System_sim", constants=dict(base, HeaderMode="all", HeaderMaxBody=1, MaxSteps=depth - 3), init="SInit", next_="SNext",
                   invariants=["EmitLife", "RefusedChangesNothing", "ReadersChangeNothing", "SealFollowsContent"], simulate="num=%d" % n, depth=depth + 4, workers=1,
                   seed=ctx.seed if ctx.seed is not None else 20260926, heap="8g"))
    return out


def run_system(ctx):
    """-> (failures, evaluations, nlives)"""
    try:
        ls = lives(ctx)
        outs = engine.parallel_map(replay, list(enumerate(ls)), chunk=max(1, len(ls) // 64))
    finally:
        cleanup()
    recs, i = [], 0
    for o in sorted(outs, key=lambda o: o["k"]):
        for r in o["recs"]:
            r["i"] = i
            i += 1
            recs.append(r)
    fails = ctx.validate("Trace_System", [{"i": r["i"], "step": r["step"], "obs": r["obs"]} for r in recs], tag="Trace_System",
                         constants=dict(MaxItems=0, MaxDepth=0, MaxDev=0, PoolA=set(), PoolB=set(), PoolC=set(), HeaderMode="plain", HeaderMaxBody=0, Feat=set(),
                                        Knobs=set(), MaxReqs=0, ReqKeys=set(), ReqVals=set(), MetaKeys=set(), Paths=set(PATHS), MaxSteps=0, SysReqs="@SysReqsNone"))
    failures = []
    for r in recs:
        if r["i"] in fails:
            lf = ls[r["life"]]
            hist = [{"act": s["act"], "path": s["path"], "hash": s["arg"]["hash"], "req": s["arg"]["req"] if s["act"] in ("amend", "dry_amend", "write_mutated", "cli_amend") else "-",
                     "content": lines_text(s["arg"]["lines"], s["arg"]["final"]) if s["arg"]["lines"] else ""} for s in lf["log"][:r["j"] + 1]]
            failures.append({"i": r["i"], "case": {"system_life": hist}, "obs": dict(r["obs"], note=r["note"]), "fails": ["System:" + c for c in fails[r["i"]]],
                             "system": True})
    return failures, len(recs), len(ls)
