"""C12 - every compiled grammar is well-formed GBNF.

model run : spec/Gbnf.tla enumerates schemas (field-name pool covering every sanitisation case and the grammar's own rule names x
            chain pool covering every constraint kind and a REGEX pool x FIELDS / META.CONTRACT route x envelope; pairs of names
            that sanitise alike)
replay    : every exit that returns a grammar (Python API, octave_compile_grammar by content and by schema name, octave_eject
            format=gbnf, grammar_hint of octave_validate and octave_write); the grammar text is scanned into GBNF tokens
validation: spec/Trace_Gbnf.tla parses the tokens (Gbnf!Violations) and names the violated clause per exit
"""
from __future__ import annotations

import json

from mbt import engine
from drivers import gbnf

NAMES = {"STATUS", "Status", "A-B", "A_B", "A.B", "A/B", "NAME", "CONTENT", "content", "ws", "field", "document", "root",
         "envelope-start", "envelope-end", "meta-block", "meta-content", "meta-field", "caf{U00E9}", "X9", "_lead", "Trail_", "a--b", "{U0416}",
         "DIGIT", "number", "string", "value"}
PAIRS = {"STATUS", "Status", "A-B", "A_B", "A.B", "A_dot_B", "CONTENT", "content", "X", "DIGIT", "digit", "NUMBER", "number", "string", "value"}
PAIR_CHAINS = {"type_number", "range", "type_string", "date"}        # chains that may bring helper rules of their own into the grammar


def replay(item):
    i, case = item
    obs = []
    for ex, g in gbnf.grammars(case):
        obs.append({"exit": ex, "tokens": gbnf.tokens(g), "grammar": g})
    return {"i": i, "case": case, "obs": obs}


def _bad_names(fl, clause):
    """names of the tokens that are not valid llama.cpp rule names in the failing exit"""
    ex = clause.split(":", 1)[1]
    return [t["v"] for o in fl["obs_full"] if o["exit"] == ex for t in o["tokens"] if t["t"] == "NAME" and not t["ok"]]


def _underscore(fl, clause):
    """RuleNameChars where every offending rule name is ASCII [a-zA-Z0-9_-]: the compiler writes underscores, llama.cpp allows '-' only"""
    if not clause.startswith("RuleNameChars:"):
        return False
    bad = _bad_names(fl, clause)
    return bool(bad) and all(all(ch in gbnf.NAME_OK or ch == "_" for ch in n) for n in bad)


MATCHERS = {"C12-underscore-in-rule-names": _underscore}


def run(ctx):
    try:
        res = ctx.model("Gbnf", constants={"NamePool": NAMES, "ChainPool": set(gbnf.CHAINS), "PairNames": PAIRS, "PairChains": PAIR_CHAINS}, invariants=["EmitCase"],
                        required_actions=["One", "Two"])
        cases = list(res.payload_lines())
        if not ctx.thorough:
            # quick: every name with 6 chains, every chain with 4 names, all pairs
            core_chains = {"REQ", "enum_ab", "type_number", "date", "re_abc", "const_quoted"}
            core_names = {"STATUS", "A.B", "CONTENT", "caf{U00E9}"}
            cases = [c for c in cases if len(c["fields"]) == 2 or c["fields"][0]["chain"] in core_chains or c["fields"][0]["name"] in core_names]
        recs = engine.parallel_map(replay, list(enumerate(cases)), chunk=20)
    finally:
        gbnf.cleanup()
    tr = [{"i": r["i"], "case": r["case"], "obs": [{"exit": o["exit"], "tokens": o["tokens"]} for o in r["obs"]]} for r in recs if r["obs"]]
    fails = ctx.validate("Trace_Gbnf", tr, constants={"NamePool": set(), "ChainPool": set(), "PairNames": set(), "PairChains": set()})
    failures = [{"i": r["i"], "case": r["case"], "obs": [{"exit": o["exit"], "grammar": o["grammar"][:600]} for o in r["obs"]][:2],
                 "obs_full": r["obs"], "fails": fails[r["i"]]} for r in recs if r["i"] in fails]
    ngr = sum(len(r["obs"]) for r in recs)
    return engine.report(
        ctx, failures=failures, matchers=MATCHERS, evaluations=ngr, distinct_nontrivial=len([r for r in recs if r["obs"]]),
        rule="cases = reachable states of spec/Gbnf.tla (one field: name pool x chain pool x route x envelope; two fields: every "
             "ordered pair of the collision pool); quick keeps every name with 6 chains, every chain with 4 names and all pairs; "
             "non-trivial = schema for which at least one exit returned a grammar; evaluations = grammars parsed",
        samples=[{"schema": recs[k]["case"], "exits": [o["exit"] for o in recs[k]["obs"]], "grammar": (recs[k]["obs"] or [{"grammar": ""}])[0]["grammar"][:300]}
                 for k in (0, len(recs) // 2)], exhaustive=bool(ctx.thorough),
        descr=lambda fl, clause: "schema=%s" % json.dumps(dict(fl["case"], fields=[{"name": f["name"], "chain": gbnf.chain_text(f["chain"])} for f in fl["case"]["fields"]]), ensure_ascii=True),
        assumptions=["the grammar text is scanned into tokens by the harness (drivers/gbnf.py: literals, classes, escapes known to "
                     "llama.cpp, ::=, groups, repetition operators incl. {m,n}, names); the syntax is judged by spec/Gbnf.tla",
                     "a response without a grammar (error envelope, schema the reader refuses) is outside the statement"])
