#!/bin/sh
# tools/mutant.sh <patch.diff> <Cxx> [tier]   -- run a check against a scratch copy of /repo with a patch applied
# (scratch worktree under /var/tmp, removed afterwards). Exit code is the check's.
set -u
patch=$(readlink -f "$1"); prop=$2; tier=${3:-quick}
wt=/var/tmp/mutant.$$.$(date +%s)
git -C /repo worktree add --detach "$wt" ${MUTANT_BASE:-HEAD} >/dev/null 2>&1 || { echo "worktree failed"; exit 2; }
if ! git -C "$wt" apply "$patch" 2>/var/tmp/mutant.$$.err; then
  if ! git -C "$wt" apply --3way "$patch" 2>>/var/tmp/mutant.$$.err; then
    echo "PATCH DOES NOT APPLY: $(cat /var/tmp/mutant.$$.err | head -5)"; git -C /repo worktree remove --force "$wt"; rm -f /var/tmp/mutant.$$.err; exit 3
  fi
fi
rm -f /var/tmp/mutant.$$.err
cd /verif && OCTAVE_SRC="$wt/src" VERIF_EVIDENCE_DIR=/var/tmp/mutant-evidence ./check "$prop" --tier "$tier"
rc=$?
git -C /repo worktree remove --force "$wt"
exit $rc
