#!/usr/bin/env python3
"""Authoring aid: writes spec/Values.tla (the value pool of the document model) from the compact
table below, so that TLA+ string escaping is done mechanically. The TLA+ module is the artefact
that TLC reads; this script is only how it was typed."""
import os

HERE = os.path.dirname(os.path.dirname(os.path.abspath(__file__)))

ARROW, PLUS, CAT, TENS, AND, OR, SEC = "U2192", "U2295", "U29FA", "U21CC", "U2227", "U2228", "U00A7"


def q(s):
    return '"' + s.replace("\\", "\\\\").replace('"', '\\"') + '"'


def S(s): return ("str", s, [])
def I(s): return ("int", s, [])
def F(s): return ("float", s, [])
def B(s): return ("bool", s, [])
def L(*xs): return ("list", "", list(xs))
def P(k, v): return ("pair", k, [v])
def H(s): return ("holo", s, [])
def Z(fence, tag, *lines): return ("zone", "%d:%s" % (fence, tag), [("ln", l, []) for l in lines])


N = ("null", "", [])


def absval(v):
    t, s, xs = v
    return "[t |-> %s, s |-> %s, xs |-> <<%s>>]" % (q(t), q(s), ", ".join(absval(x) for x in xs))


def one(*chunks):
    """single-line spelling"""
    return [("first", list(chunks))]


def sp_tla(lines):
    return "<<" + ", ".join("[k |-> %s, c |-> <<%s>>]" % (q(k), ", ".join(q(c) for c in cs)) for k, cs in lines) + ">>"


# id -> (abstract value, [spellings]); spelling 1 is the one closest to canonical.
# line kinds: first = continues the KEY:: line; rel = own line, indented at the node's indent plus the
# chunks' own leading spaces; raw = own line, verbatim (no indentation added).
V = {}


def add(vid, absv, spells, cls):
    V[vid] = (absv, spells, cls)


# ---- scalars
add("w", S("hello"), [one("hello"), one('"hello"'), one("@TQ", '"""hello"""')], "core")
add("two", S("hello world"), [one('"hello world"'), one("@MW", "hello", " ", "world"), one("@TQ", '"""hello world"""')], "core")
add("three", S("a b c"), [one('"a b c"'), one("@MW", "a", " ", "b", "  ", "c")], "full")
add("empty", S(""), [one('""'), one("@TQ", '""""""')], "core")
add("quote", S('say "hi"'), [one('"say \\"hi\\""')], "full")
add("bslash", S("a\\b"), [one('"a\\\\b"')], "full")
add("bsn", S("a\\nb"), [one('"a\\\\nb"')], "core")
add("nl", S("line1{U000A}line2"), [one('"line1\\nline2"'), [("first", ["@TQ", '"""line1']), ("raw", ['line2"""'])]], "core")
add("tab", S("a{U0009}b"), [one('"a\\tb"')], "full")
add("numstr", S("42"), [one('"42"')], "core")
add("truestr", S("true"), [one('"true"')], "full")
add("nullstr", S("null"), [one('"null"')], "full")
add("vsstr", S("vs"), [one('"vs"')], "full")
add("truedot", S("true.x"), [one('"true.x"')], "full")
add("int", I("42"), [one("42")], "core")
add("neg", I("-7"), [one("-7")], "full")
add("zero", I("0"), [one("0")], "full")
add("one", I("1"), [one("1")], "full")
add("fzero", F("0.0"), [one("0.0")], "full")
add("fone", F("1.0"), [one("1.0")], "full")
add("big", I("9223372036854775808"), [one("9223372036854775808")], "full")
add("float", F("3.14"), [one("3.14")], "core")
add("exp", F("1000.0"), [one("1e3")], "full")
add("negexp", F("-2.5e-07"), [one("-2.5e-07")], "full")
add("posexp", F("2.5e-07"), [one("2.5e-07"), one("0.00000025")], "core")
add("bigexp", F("1.5e+16"), [one("1.5e+16"), one("15000000000000000.0")], "full")
add("intexp", F("1e+22"), [one("1e+22"), one("1e22")], "full")
# a float and an integer of the same magnitude where repr switches to exponent notation: different values, different canonical texts
add("f1e16", F("1e+16"), [one("1e+16"), one("1e16"), one("10000000000000000.0")], "full")
add("i1e16", I("10000000000000000"), [one("10000000000000000")], "full")
add("f17", F("0.30000000000000004"), [one("0.30000000000000004")], "full")        # needs all 17 significant digits
# literals that overflow a double are read as infinities; the canonical spelling must read back as the same float
add("finf", F("inf"), [one("1e999"), one("1e400"), one("2.5E+308")], "full")
add("fninf", F("-inf"), [one("-1e999"), one("-1e400")], "full")
add("t", B("true"), [one("true")], "core")
add("f", B("false"), [one("false")], "full")
add("null", N, [one("null")], "core")
add("ver", S("1.2.3"), [one('"1.2.3"'), one("1.2.3")], "full")
add("verpre", S("1.0-beta"), [one('"1.0-beta"'), one("1.0-beta")], "full")
add("var", S("$VAR"), [one("$VAR"), one('"$VAR"')], "full")
add("vartyped", S("$1:role"), [one("$1:role")], "full")
add("ref", S("{U00A7}TARGET"), [one('"', SEC, 'TARGET"'), one(SEC, "TARGET"), one("#", "TARGET")], "core")
add("ref2b", S("{U00A7}2b"), [one('"', SEC, '2b"')], "full")
add("path", S("a/b.c"), [one("a/b.c"), one('"a/b.c"')], "full")
add("hyph", S("multi-part-id"), [one("multi-part-id")], "full")
add("colon", S("MOD:SUB"), [one('"MOD:SUB"'), one("MOD", ":", "SUB")], "full")
add("pct", S("60%"), [one('"60%"'), one("60%")], "full")
add("uni", S("caf{U00E9}"), [one("caf", "U00E9"), one("cafe", "U0301"), one('"caf', "U00E9", '"')], "core")
add("emoji", S("{U1F600}ok"), [one("U1F600", "ok")], "full")
# ---- operator expressions (each alias occurrence is its own chunk => a receipt site)
add("flow", S("A{U2192}B"), [one("A", ARROW, "B"), one("A", "->", "B"), one("A", " ", "->", " ", "B"), one('"A', ARROW, 'B"')], "core")
add("chain", S("A{U2192}B{U2192}C"), [one("A", ARROW, "B", ARROW, "C"), one("A", "->", "B", ARROW, "C"), one("A", "->", "B", "->", "C")], "core")
add("syn", S("A{U2295}B"), [one("A", PLUS, "B"), one("A", "+", "B"), one("A", " ", "+", " ", "B")], "core")
add("tens", S("A{U21CC}B"), [one("A", TENS, "B"), one("A", " ", "vs", " ", "B"), one("A", "<->", "B")], "core")
add("alt", S("A{U2228}B"), [one("A", OR, "B"), one("A", "|", "B")], "full")
add("con", S("A{U2227}B"), [one("A", AND, "B"), one("A", "&", "B")], "full")
add("cat", S("A{U29FA}B"), [one("A", CAT, "B"), one("A", "~", "B")], "full")
add("at", S("A@B"), [one("A@B"), one("A", " ", "@", " ", "B")], "full")
add("mixed", S("A{U2295}B{U2192}C"), [one("A", PLUS, "B", ARROW, "C"), one("A", "+", "B", "->", "C")], "full")
add("qop", S("a -> b"), [one('"a -> b"')], "core")
add("tens3", S("A{U21CC}B{U21CC}C"), [one("A", TENS, "B", TENS, "C"), one("A", " ", "vs", " ", "B", " ", "vs", " ", "C"), one("A", "<->", "B", "<->", "C"),
                                      one('"A', TENS, "B", TENS, 'C"')], "core")
add("syn3", S("A{U2295}B{U2295}C"), [one("A", PLUS, "B", PLUS, "C"), one("A", "+", "B", "+", "C")], "full")
# ---- strings that look like comments / paths
add("slashes", S("//cdn.example.com/lib.js"), [one('"//cdn.example.com/lib.js"')], "core")
add("slash2", S("//"), [one('"//"')], "full")
add("relpath", S("./a.py"), [one('"./a.py"')], "full")
add("abspath", S("/etc/hosts"), [one('"/etc/hosts"')], "full")
add("docpath", S("docs/x.md"), [one("docs/x.md"), one('"docs/x.md"')], "full")
# ---- strings whose text is a JSON container
add("sjl", S("[1, 2]"), [one('"[1, 2]"')], "full")
add("sje", S("[]"), [one('"[]"')], "full")
add("sjo", S("{U007B}}"), [one('"{}"')], "full")
# ---- whitespace next to a line break inside a string
add("nlsp", S("keeps its space {U000A}next"), [one('"keeps its space \\nnext"'), [("first", ["@TQ", '"""keeps its space ']), ("raw", ['next"""'])]], "core")
add("nllead", S("a{U000A}  b"), [one('"a\\n  b"'), [("first", ["@TQ", '"""a']), ("raw", ['  b"""'])]], "full")
# ---- annotations / constructor brackets
add("ann", S("ATHENA<wisdom>"), [one("ATHENA<wisdom>")], "core")
add("ctor1", S("NEVER<A>"), [one("NEVER<A>"), one("NEVER", "[", "A", "]")], "core")
add("ctor2", S("NEVER<A,B>"), [one("NEVER<A,B>"), one("NEVER", "[", "A", ",", "B", "]")], "full")
add("ctor0", S("FOO<>"), [one("FOO<>"), one("FOO", "[", "]")], "full")
add("catpath", S("build{U29FA}/dist"), [one('"build', CAT, '/dist"'), one("build", CAT, "/dist"), one("build", " ", "~", "/dist"), one("build", "~", "/dist")], "full")
# ---- operators inside a bracket group that is captured as text (constructor arguments, a bracket group inside an expression)
add("ctorop", S("CHECK<lint{U2227}test>"), [one('"CHECK<lint', AND, 'test>"'), one("CHECK", "[", "lint", AND, "test", "]"), one("CHECK", "[", "lint", "&", "test", "]")], "full")
add("ctorops", S("RULES<fast{U2192}safe,a{U2228}b>"), [one('"RULES<fast', ARROW, "safe,a", OR, 'b>"'), one("RULES", "[", "fast", ARROW, "safe", ",", "a", OR, "b", "]"),
                                                        one("RULES", "[", "fast", "->", "safe", ",", "a", "|", "b", "]")], "full")
add("stageop", S("STAGE[x{U2228}y]{U2192}DONE"), [one('"STAGE[x', OR, "y]", ARROW, 'DONE"'), one("STAGE", "[", "x", OR, "y", "]", ARROW, "DONE"),
                                                   one("STAGE", "[", "x", "|", "y", "]", "->", "DONE")], "full")
# ---- holographic
add("holo", H('["x"{U2227}REQ{U2192}{U00A7}T]'),
    [one("[", '"x"', AND, "REQ", ARROW, SEC, "T", "]"), one("[", '"x"', "&", "REQ", "->", "#", "T", "]"),
     one("[", " ", '"x"', " ", AND, " ", "REQ", " ", ARROW, " ", SEC, "T", " ", "]"),
     [("first", ["["]), ("rel", ["  ", '"x"', "&", "REQ", "->", "#", "T"]), ("rel", ["]"])],
     [("first", ["["]), ("rel", ["    ", '"x"', AND, "REQ", ARROW, SEC, "T"]), ("rel", ["  ", "]"])]], "core")
add("holoenum", H('["a"{U2227}ENUM[a,b]]'), [one("[", '"a"', AND, "ENUM", "[", "a", ",", "b", "]", "]"), one("[", '"a"', "&", "ENUM", "[", "a", ",", "b", "]", "]")], "full")
# ---- lists and inline maps
add("l0", L(), [one("[", "]"), one("[", " ", "]")], "core")
add("l1", L(S("a")), [one("[", "a", "]"), one("[", " ", "a", " ", "]"), one("[", "a", ",", "]")], "full")
add("l2", L(S("a"), S("b")), [one("[", "a", ",", "b", "]"), one("[", "a", ",", " ", "b", "]"),
                               [("first", ["["]), ("rel", ["  ", "a", ","]), ("rel", ["  ", "b"]), ("rel", ["]"])],
                               one("[", "a", ",", "b", ",", "]")], "core")
add("l3", L(S("a"), S("b"), S("c")), [[("first", ["["]), ("rel", ["  ", "a", ","]), ("rel", ["  ", "b", ","]), ("rel", ["  ", "c"]), ("rel", ["]"])],
                                       one("[", "a", ",", "b", ",", "c", "]"),
                                       [("first", ["[", "a", ","]), ("rel", ["      ", "b", ",", "c", "]"])]], "core")
add("lnest", L(L(S("a")), S("b")), [[("first", ["["]), ("rel", ["  ", "[", "a", "]", ","]), ("rel", ["  ", "b"]), ("rel", ["]"])],
                                     one("[", "[", "a", "]", ",", "b", "]")], "core")
add("lmatrix", L(L(S("a"), S("b"), S("c")), L(S("d"), S("e"), S("f"))),
    [[("first", ["["]), ("rel", ["  ", "["]), ("rel", ["    ", "a", ","]), ("rel", ["    ", "b", ","]), ("rel", ["    ", "c"]), ("rel", ["  ", "]", ","]),
      ("rel", ["  ", "["]), ("rel", ["    ", "d", ","]), ("rel", ["    ", "e", ","]), ("rel", ["    ", "f"]), ("rel", ["  ", "]"]), ("rel", ["]"])],
     one("[", "[", "a", ",", "b", ",", "c", "]", ",", "[", "d", ",", "e", ",", "f", "]", "]")], "core")
add("lmap", L(P("k", I("1")), P("j", S("x"))), [[("first", ["["]), ("rel", ["  ", "k", "::", "1", ","]), ("rel", ["  ", "j", "::", "x"]), ("rel", ["]"])],
                                                 one("[", "k", "::", "1", ",", "j", "::", "x", "]"),
                                                 one("[", "k", " ", "::", " ", "1", ",", " ", "j", "::", '"x"', "]")], "core")
add("lfalsy", L(P("k", B("false")), P("j", I("0"))), [[("first", ["["]), ("rel", ["  ", "k", "::", "false", ","]), ("rel", ["  ", "j", "::", "0"]), ("rel", ["]"])],
                                                        one("[", "k", "::", "false", ",", "j", "::", "0", "]")], "core")
add("lnullmap", L(P("k", N)), [[("first", ["["]), ("rel", ["  ", "k", "::", "null"]), ("rel", ["]"])], one("[", "k", "::", "null", "]")], "full")
add("lemptymap", L(P("k", S(""))), [[("first", ["["]), ("rel", ["  ", "k", "::", '""']), ("rel", ["]"])], one("[", "k", "::", '""', "]")], "full")
add("lq", L(S("x y"), I("42"), B("true"), N), [[("first", ["["]), ("rel", ["  ", '"x y"', ","]), ("rel", ["  ", "42", ","]), ("rel", ["  ", "true", ","]), ("rel", ["  ", "null"]), ("rel", ["]"])],
                                                one("[", '"x y"', ",", "42", ",", "true", ",", "null", "]")], "core")
add("ltq", L(S("a{U000A}b"), S("X{U2192}Y"), S("hello there")),
    [[("first", ["["]), ("rel", ["  ", '"a\\nb"', ","]), ("rel", ["  ", "X", ARROW, "Y", ","]), ("rel", ["  ", '"hello there"']), ("rel", ["]"])],
     [("first", ["[", "@TQ", '"""a']), ("raw", ['b"""', ",", " ", "X", "->", "Y", ",", " ", '"hello there"', "]"])]], "full")
add("lslash", L(S("//x"), S("b")), [one("[", '"//x"', ",", "b", "]"), [("first", ["["]), ("rel", ["  ", '"//x"', ","]), ("rel", ["  ", "b"]), ("rel", ["]"])]], "core")
add("lexpr", L(S("A{U2192}B"), S("C")), [one("[", "A", ARROW, "B", ",", "C", "]"), one("[", "A", "->", "B", ",", " ", "C", "]")], "core")
add("lann", L(S("X<a>"), S("b")), [[("first", ["["]), ("rel", ["  ", "X<a>", ","]), ("rel", ["  ", "b"]), ("rel", ["]"])], one("[", "X<a>", ",", "b", "]")], "full")
add("lpattern", L(P("PATTERN", S("abc")), P("REGEX", S("a.*"))),
    [[("first", ["["]), ("rel", ["  ", "PATTERN", "::", '"abc"', ","]), ("rel", ["  ", "REGEX", "::", '"a.*"']), ("rel", ["]"])],
     one("[", "PATTERN", "::", '"abc"', ",", "REGEX", "::", '"a.*"', "]")], "full")
# ---- literal zones (value starts on the line after KEY::)
add("z1", Z(3, "", "code here"), [[("first", []), ("rel", ["```"]), ("raw", ["code here"]), ("rel", ["```"])]], "core")
add("zpy", Z(3, "python", "a -> b", "  k::v # c"), [[("first", []), ("rel", ["```", "python"]), ("raw", ["a -> b"]), ("raw", ["  k::v # c"]), ("rel", ["```"])]], "core")
add("z4", Z(4, "", "```", "===END==="), [[("first", []), ("rel", ["````"]), ("raw", ["```"]), ("raw", ["===END==="]), ("rel", ["````"])]], "full")
add("ztrail", Z(3, "", "trail  ", "tab{U0009}"), [[("first", []), ("rel", ["```"]), ("raw", ["trail  "]), ("raw", ["tab", "U0009"]), ("rel", ["```"])]], "core")
# a zone that SHOWS a seal section (documentation about sealing): its lines are content, never structure
add("zseal", Z(3, "", "{U00A7}SEAL::SEAL", "  SCOPE::LINES[1,2]", '  HASH::"0000"'), [[("first", []), ("rel", ["```"]), ("raw", [SEC, "SEAL::SEAL"]), ("raw", ["  SCOPE::LINES[1,2]"]),
                                                                                     ("raw", ['  HASH::"0000"']), ("rel", ["```"])]], "core")
# a zone tagged as OCTAVE / Markdown that shows a whole document (what a chat client would wrap an answer in)
add("zoct", Z(3, "octave", "===INNER===", "K::v", "===END==="), [[("first", []), ("rel", ["```", "octave"]), ("raw", ["===INNER==="]), ("raw", ["K::v"]), ("raw", ["===END==="]), ("rel", ["```"])]], "full")
add("zmd", Z(3, "md", "===INNER===", "K::v"), [[("first", []), ("rel", ["```", "md"]), ("raw", ["===INNER==="]), ("raw", ["K::v"]), ("rel", ["```"])]], "full")
add("zempty", Z(3, "", ), [[("first", []), ("rel", ["```"]), ("rel", ["```"])]], "core")
add("ztab", Z(3, "txt", "{U0009}x", "cafe{U0301}", 'q"\\n'), [[("first", []), ("rel", ["```", "txt"]), ("raw", ["U0009", "x"]), ("raw", ["cafe", "U0301"]), ("raw", ['q"\\n']), ("rel", ["```"])]], "full")
add("zblank3", Z(3, "", "a  ", "", "", "", "{U00A7}1::X", "{U00A7}2::Y"), [[("first", []), ("rel", ["```"]), ("raw", ["a  "]), ("raw", []), ("raw", []), ("raw", []),
                                                                         ("raw", [SEC, "1::X"]), ("raw", [SEC, "2::Y"]), ("rel", ["```"])]], "full")
add("linf", L(F("inf"), I("1"), F("-inf")), [one("[", "1e999", ",", "1", ",", "-1e999", "]"), one("[", "1e400", ",", "1", ",", "-1e400", "]")], "full")
add("l01", L(I("0"), I("1"), B("true"), N), [one("[", "0", ",", "1", ",", "true", ",", "null", "]")], "full")
add("zblank", Z(3, "", "x", "", "---"), [[("first", []), ("rel", ["```"]), ("raw", ["x"]), ("raw", []), ("raw", ["---"]), ("rel", ["```"])]], "full")


def main():
    out = []
    w = out.append
    w("---------------------------- MODULE Values ----------------------------")
    w("(* The value pool of the document model (C01-C03, C05, C07, C09, C14, C15, C18).           *)")
    w("(* For each value id: Abs = WHAT the value is (kind, text, items) and Spell = the ways it    *)")
    w("(* may be WRITTEN (documented lenient freedoms); spelling 1 is the plainest one.            *)")
    w("(*   abstract value  [t, s, xs]: t in str|int|float|bool|null|list|pair|zone|ln|holo;       *)")
    w("(*                   text s uses {Uxxxx} for non-ASCII / control characters.                *)")
    w("(*   spelling        sequence of lines [k, c]: k = first (continues the KEY:: line) | rel   *)")
    w("(*                   (own line at the node's indent) | raw (own line, verbatim);            *)")
    w("(*                   c = chunks: ASCII text, an atom name Uxxxx (one character), or a       *)")
    w("(*                   zero-width marker (@MW: a multi-word bare value starts here; @TQ: a    *)")
    w("(*                   triple-quoted string opens here).                                      *)")
    w("(* Every chunk that is an ASCII operator alias, and every marker, is a                       *)")
    w("(* rewrite site: Surface!Receipts derives the expected receipts from the chunks.            *)")
    w("(* (typed with tools/gen_values.py)                                                         *)")
    w("EXTENDS Naturals, Sequences")
    w("")
    for cls in ("core", "full"):
        ids = [k for k, v in V.items() if v[2] == cls]
        w("%sIds == {%s}" % (cls.capitalize(), ", ".join(q(i) for i in ids)))
    w("ValIds == CoreIds \\cup FullIds")
    zids = [k for k, v in V.items() if v[0][0] == "zone"]
    w("ZoneIds == {%s}" % ", ".join(q(i) for i in zids))
    lids = [k for k, v in V.items() if v[0][0] in ("list", "holo")]
    w("ListIds == {%s}" % ", ".join(q(i) for i in lids))
    w("")
    w("Abs(v) ==")
    first = True
    for k, (a, sp, cls) in V.items():
        w("  %s v = %s -> %s" % ("CASE" if first else "  []", q(k), absval(a)))
        first = False
    w("")
    w("Spell(v) ==")
    first = True
    for k, (a, sp, cls) in V.items():
        w("  %s v = %s -> <<%s>>" % ("CASE" if first else "  []", q(k), ",\n        ".join(sp_tla(s) for s in sp)))
        first = False
    w("")
    w("NSpell(v) == Len(Spell(v))")
    w("=============================================================================")
    with open(os.path.join(HERE, "spec", "Values.tla"), "w") as f:
        f.write("\n".join(out) + "\n")
    print("wrote spec/Values.tla with", len(V), "values")


if __name__ == "__main__":
    main()
