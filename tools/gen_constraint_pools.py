#!/usr/bin/env python3
"""Authoring aid: types spec/ConstraintPools.tla (value pool and constraint pool of C08-C11, C13) from the compact
tables below (strings become sequences of one-character atoms mechanically)."""
import os
from fractions import Fraction

HERE = os.path.dirname(os.path.dirname(os.path.abspath(__file__)))


def q(s):
    return '"' + s.replace("\\", "\\\\").replace('"', '\\"') + '"'


def chars(s):
    return "<<" + ", ".join(q(c) for c in s) + ">>"


def rat(x):
    f = Fraction(str(x))
    return "<<%d, %d>>" % (f.numerator, f.denominator)


# ---- values: (id, kind, text, extra)
STR = ["", "c)", "a(b", "a", "ab", "abc", "abcd", "b", "x", "AB", "Ab", "123", "5", "7.5", "abx", "cdx", "cd", "a-c", "hello", "true",
       "2024-01-15", "2024-02-29", "2023-02-29", "2024-02-30", "2024-13-01", "2024-00-10", "2024-04-31", "2024-1-5", "1900-02-29",
       "2000-02-29", "2024-01-15T10:30:00", "2024-01-15T10:30:00Z", "2024-01-15T10:30:00+05:30", "2024-01-15T25:00:00",
       "2024-02-30T10:00:00", "2024-01-15T10:61:00", "20240115", "2024-01-15 10:30:00", "2024-01-15T10:30"]
NUM = [("int", "0"), ("int", "1"), ("int", "5"), ("int", "10"), ("int", "11"), ("int", "-1"), ("float", "0.5"), ("float", "2.5"),
       ("float", "2.6"), ("float", "1.0"), ("float", "0.4")]
VALUES = []
for s in STR:
    VALUES.append(("s:" + s, "str", s, None))
for k, lit in NUM:
    VALUES.append(("n:" + lit, k, lit, None))
VALUES += [("b:true", "bool", "true", None), ("b:false", "bool", "false", None), ("null", "null", "", None),
           ("l:0", "list", "", 0), ("l:1", "list", "", 1), ("l:3", "list", "", 3), ("l:4", "list", "", 4),
           ("z:python", "zone", "python", None), ("z:PYTHON", "zone", "PYTHON", None), ("z:none", "zone", "", None)]

# ---- constraints: (id, text as written in a chain, kind, params)
CONS = [("REQ", "REQ", "REQ", {}), ("OPT", "OPT", "OPT", {}),
        ("CONST_a", "CONST[a]", "CONST", {"v": "s:a"}), ("CONST_ab", "CONST[ab]", "CONST", {"v": "s:ab"}),
        ("CONST_1", "CONST[1]", "CONST", {"v": "n:1"}), ("CONST_q5", 'CONST["5"]', "CONST", {"v": "s:5"}),
        ("ENUM_ab", "ENUM[ab,abc,b]", "ENUM", {"vals": ["ab", "abc", "b"]}), ("ENUM_xy", "ENUM[x,abcd]", "ENUM", {"vals": ["x", "abcd"]}),
        ("ENUM_a", "ENUM[a,AB]", "ENUM", {"vals": ["a", "AB"]}),
        ("T_STR", "TYPE[STRING]", "TYPE", {"ty": "STRING"}), ("T_NUM", "TYPE[NUMBER]", "TYPE", {"ty": "NUMBER"}),
        ("T_BOOL", "TYPE[BOOLEAN]", "TYPE", {"ty": "BOOLEAN"}), ("T_LIST", "TYPE[LIST]", "TYPE", {"ty": "LIST"}),
        ("T_LIT", "TYPE[LITERAL]", "TYPE", {"ty": "LITERAL"}),
        ("RE_lower", 'REGEX["^[a-z]+$"]', "REGEX", {"re": "lower"}), ("RE_d3", 'REGEX["^[0-9]{3}$"]', "REGEX", {"re": "d3"}),
        ("RE_alt", 'REGEX["^(ab|cd)x?$"]', "REGEX", {"re": "alt"}), ("RE_dot", 'REGEX["^a.c$"]', "REGEX", {"re": "dot"}),
        ("RE_digits", 'REGEX["^[0-9]+$"]', "REGEX", {"re": "digits"}),
        # a lone bracket character inside a quoted argument: the members that follow in the chain are still members
        ("RE_noparen", 'REGEX["^[^)]+$"]', "REGEX", {"re": "noparen"}), ("ENUM_par", 'ENUM[ab,"c)"]', "ENUM", {"vals": ["ab", "c)"]}),
        ("CONST_par", 'CONST["a(b"]', "CONST", {"v": "s:a(b"}),
        ("RANGE_1_10", "RANGE[1,10]", "RANGE", {"lo": "1", "hi": "10"}), ("RANGE_h", "RANGE[0.5,2.5]", "RANGE", {"lo": "0.5", "hi": "2.5"}),
        ("RANGE_5", "RANGE[5,5]", "RANGE", {"lo": "5", "hi": "5"}),
        ("MIN_0", "MIN_LENGTH[0]", "MIN", {"n": 0}), ("MIN_2", "MIN_LENGTH[2]", "MIN", {"n": 2}),
        ("MAX_3", "MAX_LENGTH[3]", "MAX", {"n": 3}), ("MAX_0", "MAX_LENGTH[0]", "MAX", {"n": 0}),
        ("DATE", "DATE", "DATE", {}), ("ISO", "ISO8601", "ISO", {}), ("LANG_py", "LANG[python]", "LANG", {"tag": "python"})]


def main():
    out = []
    w = out.append
    w("---------------------------- MODULE ConstraintPools ----------------------------")
    w("(* Pools for the constraint properties (C08-C11, C13): values of every kind incl. boundary  *)")
    w("(* values, and one or more instances of each constraint kind.  A value is                    *)")
    w("(*   [id, t, cs, num, len]  t in str|int|float|bool|null|list|zone ; cs = characters of the   *)")
    w("(*   text (strings, number literals, zone info tag) ; num = the number as <<numerator,        *)")
    w("(*   denominator>> ; len = number of items of a list.                                         *)")
    w("(* A constraint is [id, k, ...parameters]; its text as written in a chain is in ConsText.     *)")
    w("(* (typed with tools/gen_constraint_pools.py)                                                 *)")
    w("EXTENDS Naturals, Integers, Sequences")
    w("")
    w("ValueIds == {%s}" % ", ".join(q(v[0]) for v in VALUES))
    w("Val(id) ==")
    first = True
    for vid, t, text, extra in VALUES:
        num = rat(text) if t in ("int", "float") else "<<0, 0>>"
        ln = extra if extra is not None else 0
        w("  %s id = %s -> [id |-> %s, t |-> %s, cs |-> %s, num |-> %s, len |-> %d]" %
          ("CASE" if first else "  []", q(vid), q(vid), q(t), chars(text), num, ln))
        first = False
    w("")
    w("ConsIds == {%s}" % ", ".join(q(c[0]) for c in CONS))
    w("Cons(id) ==")
    first = True
    for cid, text, k, p in CONS:
        fields = ["id |-> " + q(cid), "k |-> " + q(k)]
        fields.append("v |-> " + (q(p["v"]) if "v" in p else q("-")))
        fields.append("vals |-> " + ("{" + ", ".join(chars(x) for x in p["vals"]) + "}" if "vals" in p else "{}"))
        fields.append("ty |-> " + q(p.get("ty", "-")))
        fields.append("re |-> " + q(p.get("re", "-")))
        fields.append("lo |-> " + (rat(p["lo"]) if "lo" in p else "<<0, 1>>"))
        fields.append("hi |-> " + (rat(p["hi"]) if "hi" in p else "<<0, 1>>"))
        fields.append("n |-> %d" % p.get("n", 0))
        fields.append("tag |-> " + (chars(p["tag"]) if "tag" in p else "<<>>"))
        w("  %s id = %s -> [%s]" % ("CASE" if first else "  []", q(cid), ", ".join(fields)))
        first = False
    w("")
    w("ConsText(id) ==")
    first = True
    for cid, text, k, p in CONS:
        w("  %s id = %s -> %s" % ("CASE" if first else "  []", q(cid), q(text)))
        first = False
    w("=============================================================================")
    with open(os.path.join(HERE, "spec", "ConstraintPools.tla"), "w") as f:
        f.write("\n".join(out) + "\n")
    print("wrote spec/ConstraintPools.tla: %d values, %d constraints" % (len(VALUES), len(CONS)))


if __name__ == "__main__":
    main()
