#!/bin/sh
# tools/run_seeds.sh [id ...]  -- run the owning check (quick tier) against every kept seeded change and record the outcome in
# seeded/<id>/meta.json ("detected_by") and seeded/RESULTS.md.  Each change is applied to a scratch worktree of /repo (HEAD, or the
# commit the change was written against when it no longer applies to HEAD and no ported patch exists), never to /repo itself.
cd /verif
ids=${*:-$(ls seeded | grep -E '^C[0-9]+-[0-9]+$')}
for id in $ids; do
  prop=${id%-*}
  d=seeded/$id
  patch=$d/patch.diff; base=HEAD
  [ -f $d/patch_on_fixed_tree.diff ] && patch=$d/patch_on_fixed_tree.diff
  log=/var/tmp/run_seed.$id.log
  MUTANT_BASE=$base sh tools/mutant.sh $patch $prop quick > $log 2>&1; rc=$?
  if [ $rc = 3 ] || grep -q "PATCH DOES NOT APPLY\|with conflicts" $log; then
    base=$(/venv/bin/python -c "import json,sys; print(json.load(open(sys.argv[1])).get(\"base_commit\") or \"c548b8b\")" $d/meta.json)
    MUTANT_BASE=$base sh tools/mutant.sh $d/patch.diff $prop quick > $log 2>&1; rc=$?
    patch=$d/patch.diff
  fi
  first=$(grep -m1 '^VIOLATION' $log | cut -c1-400)
  nviol=$(grep -c '^VIOLATION' $log)
  /venv/bin/python - "$d/meta.json" "$prop" "$rc" "$first" "$nviol" "$patch" "$base" <<'PY'
import json, sys
p, prop, rc, first, nviol, patch, base = sys.argv[1:8]
m = json.load(open(p))
m["detected_by"] = {"check": "./check %s --tier quick" % prop, "exit": int(rc), "result": "detected" if rc == "1" and int(nviol) > 0 else ("MISSED" if rc == "0" else "machinery failure"),
                    "violation_lines": int(nviol), "first_violation": first, "patch_used": patch.split("/")[-1], "applied_to": base}
json.dump(m, open(p, "w"), indent=1, ensure_ascii=False)
PY
  echo "$id rc=$rc base=$base $(basename $patch) $(echo "$first" | cut -c1-200)"
done
/venv/bin/python - <<'PY'
import json, glob, os
rows = []
for p in sorted(glob.glob("/verif/seeded/C*/meta.json")):
    m = json.load(open(p)); d = m.get("detected_by") or {}
    if not isinstance(d, dict):
        continue
    cl = ""
    if "clause=" in d.get("first_violation", ""):
        cl = d["first_violation"].split("clause=")[1].split(" ")[0]
    rows.append("| %s | %s | %s | %s | %s | %s |" % (os.path.basename(os.path.dirname(p)), m.get("summary", "")[:150].replace("|", "/").replace("\n", " "), d.get("result"), cl, d.get("patch_used"), d.get("applied_to")))
open("/verif/seeded/RESULTS.md", "w").write("# Seeded changes vs checks (written by tools/run_seeds.sh)\n\n| seed | change | quick check | first failed clause | patch | applied to |\n|---|---|---|---|---|---|\n" + "\n".join(rows) + "\n")
PY
