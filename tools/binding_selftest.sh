#!/bin/sh
# tools/binding_selftest.sh [Cxx ...] -- demonstrate that the trace specifications bind: for each check, (1) corrupt one observed field
# of one record before trace validation -> the check must exit 1 with a VIOLATION line; (2) drop one record after the count was taken
# -> the check must exit 2 (trace not fully consumed).  Evidence goes to a scratch directory.
cd /verif
props=${*:-$(/venv/bin/python -c "import json; print(' '.join(c['property_id'] for c in json.load(open('MANIFEST.json'))['checks']))")}
for p in $props; do
  VERIF_EVIDENCE_DIR=/var/tmp/selftest-evidence VERIF_SELFTEST=flip:7 ./check $p --tier quick > /var/tmp/selftest.$p.flip.log 2>&1; r1=$?
  if [ $r1 = 0 ]; then VERIF_EVIDENCE_DIR=/var/tmp/selftest-evidence VERIF_SELFTEST=flipall:7 ./check $p --tier quick > /var/tmp/selftest.$p.flip.log 2>&1; r1=$?; fi
  VERIF_EVIDENCE_DIR=/var/tmp/selftest-evidence VERIF_SELFTEST=drop:7 ./check $p --tier quick > /var/tmp/selftest.$p.drop.log 2>&1; r2=$?
  echo "$p flip: exit $r1 ($(grep -c '^VIOLATION' /var/tmp/selftest.$p.flip.log) violation line(s): $(grep -m1 -o 'clause=[^ ]*' /var/tmp/selftest.$p.flip.log))  drop: exit $r2 ($(grep -m1 -o 'not fully consumed' /var/tmp/selftest.$p.drop.log))"
done
rm -rf /var/tmp/selftest-evidence
