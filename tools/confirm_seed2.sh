#!/bin/sh
# tools/confirm_seed2.sh <Cxx> <k> <newk> -- like confirm_seed.sh for round-2 seeds: source /tmp/seed2/<Cxx>.out, written against /repo HEAD
# at the time (SEED_BASE), stored as /verif/seeded/<Cxx>-<newk>/
set -u
id=$1; k=$2; nk=$3; BASE=${SEED_BASE:-64b068a}
src=${SEED_SRC:-/tmp/seed2}/$id.out
wt=/var/tmp/confirm2.$id.$k
log=/var/tmp/confirm2.$id.$k.log
: > $log
git -C /repo worktree remove --force "$wt" >/dev/null 2>&1
git -C /repo worktree add --detach "$wt" $BASE >>$log 2>&1 || { echo "$id-$nk: worktree failed"; exit 2; }
run_suite() { (cd "$wt" && PYTHONPATH="$wt/src" /venv/bin/python -m pytest -q -p no:cacheprovider --timeout=900 -p no:randomly 2>&1 | grep -E "^(FAILED|ERROR) |passed|failed" | sed -e 's/ - .*//' -e 's/ in [0-9.]*s.*=*$//' -e 's/^=* *//' | sort); }
if [ ! -f /var/tmp/confirm.baseline.$BASE ]; then run_suite > /var/tmp/confirm.baseline.$BASE; fi
PYTHONPATH="$wt/src" /venv/bin/python "$src/demo$k.py" >>$log 2>&1; d0=$?
git -C "$wt" apply "$src/patch$k.diff" >>$log 2>&1 || { echo "$id-$nk: patch does not apply"; git -C /repo worktree remove --force "$wt"; exit 3; }
PYTHONPATH="$wt/src" /venv/bin/python "$src/demo$k.py" >>$log 2>&1; d1=$?
run_suite > /var/tmp/confirm2.$id.$k.suite
if diff -q /var/tmp/confirm.baseline.$BASE /var/tmp/confirm2.$id.$k.suite >/dev/null; then suite=same; else suite=DIFFERENT; fi
git -C /repo worktree remove --force "$wt"
echo "$id-$nk: demo_without=$d0 demo_with=$d1 suite=$suite ($(tail -1 /var/tmp/confirm2.$id.$k.suite))"
if [ "$d0" = 0 ] && [ "$d1" != 0 ] && [ "$suite" = same ]; then
  dst=/verif/seeded/$id-$nk; mkdir -p "$dst"
  cp "$src/patch$k.diff" "$dst/patch.diff"; cp "$src/demo$k.py" "$dst/demo.py"
  /venv/bin/python - "$src/meta$k.json" "$dst/meta.json" "$id" "$BASE" "$(tail -1 /var/tmp/confirm2.$id.$k.suite)" <<'PY'
import json,sys
src,dst,pid,base,suite=sys.argv[1:6]
try: m=json.load(open(src))
except Exception: m={}
out={"property":pid,"summary":m.get("summary",""),"needs":m.get("needs",""),"files":m.get("files",[]),"round":int(__import__("os").environ.get("SEED_ROUND","2")),
     "base_commit":base,
     "confirmed":{"ran":"tools/confirm_seed2.sh: scratch worktree of the base commit; demo.py without the patch (exit 0), with the patch (exit != 0); full repository suite with the patch compared test-by-test with the same suite on the base commit",
                  "demo_without_patch":"PASS","demo_with_patch":"FAIL","suite_with_patch":suite,"suite_vs_baseline":"identical set of failing/erroring tests"},
     "detected_by":"(filled in by tools/run_seeds.sh)"}
json.dump(out,open(dst,"w"),indent=1)
PY
  echo "$id-$nk: kept in $dst"
else
  echo "$id-$nk: NOT kept (see $log)"
fi
