#!/bin/sh
# tools/run_all.sh [tier]  -- run every registered check on /repo's working tree, one after another; summary at the end
tier=${1:-quick}
cd /verif
for p in $(/venv/bin/python -c "import json; print(' '.join(c['property_id'] for c in json.load(open('MANIFEST.json'))['checks']))"); do
  s=$(date +%s)
  timeout ${RUN_ALL_TIMEOUT:-3600} ./check $p --tier $tier > /var/tmp/run_all.$p.$tier.log 2>&1; rc=$?
  echo "$p rc=$rc $(( $(date +%s) - s ))s $(grep -c '^VIOLATION' /var/tmp/run_all.$p.$tier.log) violation(s) $(grep -c '^KNOWN-FINDING' /var/tmp/run_all.$p.$tier.log) known | $(tail -1 /var/tmp/run_all.$p.$tier.log | cut -c1-160)"
done
